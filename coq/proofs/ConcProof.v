(* ConcProof.v — theorems about model/Conc.v (C17: concurrent executions of the sync flavours).

   1. deadlock freedom of the explicit-guard semantics (one_guard_per_thread, no_deadlock)
   2. programs without isolate never panic and never poison a lock (no_isolate_no_panic)
   3. connect/query programs keep the mirror as multisets at quiescence (connect_quiescent_mirror)
   4. refutations of the unrestricted property by concrete schedules (the c17_refuted lemmas)
   5. the explicit-guard semantics and the atomic semantics reach the same configurations
      (gstep_refines_cstep, cstep_refines_gstep) *)
From Gdsl.Model Require Import Base NodeOps Conc.
From Gdsl.Proofs Require Import NodeLemmas.
From Coq Require Import Lia Permutation.

(* ------------------------------------------------------------------ *)
(* list helpers                                                        *)
(* ------------------------------------------------------------------ *)
Section SetNth.
  Variable A : Type.
  Implicit Types l : list A.

  Lemma nth_error_set_nth_other l i j (x : A) :
    j <> i -> nth_error (set_nth l i x) j = nth_error l j.
  Proof.
    revert i j. induction l as [|y r IH]; intros i j Hne; [reflexivity|].
    destruct i as [|i]; destruct j as [|j]; cbn [set_nth nth_error]; try reflexivity.
    - congruence.
    - apply IH. lia.
  Qed.

  Lemma In_set_nth l i (x y : A) : In y (set_nth l i x) -> y = x \/ In y l.
  Proof.
    revert i. induction l as [|z r IH]; intros i Hin; [destruct Hin|].
    destruct i as [|i]; cbn [set_nth] in Hin; destruct Hin as [Heq|Hin].
    - left. now symmetry.
    - right. now right.
    - right. now left.
    - destruct (IH _ Hin) as [H|H]; [now left|right; now right].
  Qed.

  Lemma set_nth_app l1 l2 (a x : A) :
    set_nth (l1 ++ a :: l2) (length l1) x = l1 ++ x :: l2.
  Proof. induction l1 as [|y r IH]; cbn [set_nth app length]; [reflexivity|now rewrite IH]. Qed.

  Lemma filter_filter_length (p q : A -> bool) l :
    length (filter p (filter q l)) <= length (filter p l).
  Proof.
    induction l as [|y r IH]; [apply Nat.le_refl|].
    cbn [filter]. destruct (q y); cbn [filter]; destruct (p y); cbn [length]; lia.
  Qed.

  Lemma existsb_false_filter (p : A -> bool) l : existsb p l = false -> filter p l = [].
  Proof.
    induction l as [|y r IH]; [reflexivity|]. cbn [existsb filter]. intros H.
    apply orb_false_iff in H as [Hy Hr]. rewrite Hy. now apply IH.
  Qed.
End SetNth.

Section ConcProof.
  Variables K V E : Type.
  Variable keqb : K -> K -> bool.
  Notation heap := (heap K V E).
  Notation prog := (prog K V E).
  Notation thread := (thread K V E).
  Notation config := (config K V E).
  Notation gconfig := (gconfig K V E).
  Notation call := (call K E).
  Notation cstep := (cstep keqb).
  Notation settle := (@settle K V E keqb).
  Notation gstep := (gstep keqb).
  Notation prog_of := (prog_of V keqb).

  (* ------------------------------------------------------------------ *)
  (* the shape of one atomic step                                        *)
  (* ------------------------------------------------------------------ *)
  Lemma runnable_inv (t : thread) :
    runnable t = true -> t_status t = TRun /\ exists u w k, t_cur t = Some (Step u w k).
  Proof.
    unfold runnable. destruct (t_status t); try discriminate.
    destruct (t_cur t) as [[r|u w k|o|]|]; try discriminate. intros _. split; [reflexivity|eauto].
  Qed.

  Lemma cstep_dich directed (c : config) tid :
    cstep directed c tid = (c, None) \/
    exists t u w k, nth_error (c_threads c) tid = Some t /\ t_status t = TRun /\ t_cur t = Some (Step u w k).
  Proof.
    unfold Conc.cstep. destruct (nth_error (c_threads c) tid) as [t|] eqn:Hn; [|left; reflexivity].
    destruct (t_status t) eqn:Hs; try (left; reflexivity).
    destruct (t_cur t) as [[r|u w k|o|]|] eqn:Hc; try (left; reflexivity).
    right. exists t, u, w, k. auto.
  Qed.

  Lemma cstep_run_np directed (c : config) tid t u w k :
    nth_error (c_threads c) tid = Some t -> t_status t = TRun -> t_cur t = Some (Step u w k) ->
    existsb (Nat.eqb u) (c_poisoned c) = false ->
    cstep directed c tid =
      (mkC (fst (k (c_heap c)))
           (match snd (k (c_heap c)) with Abort _ _ _ (Some v) => v :: c_poisoned c | _ => c_poisoned c end)
           (set_nth (c_threads c) tid
              (settle directed (2 * length (t_rest t) + 4)
                 (mkT (Some (snd (k (c_heap c)))) (t_rest t) (t_results t) TRun))),
       Some (tid, u, w)).
  Proof.
    intros Hn Hs Hc Hp. unfold Conc.cstep. rewrite Hn, Hs, Hc, Hp.
    destruct (k (c_heap c)) as [h1 p1]. reflexivity.
  Qed.

  Lemma cstep_run_p directed (c : config) tid t u w k :
    nth_error (c_threads c) tid = Some t -> t_status t = TRun -> t_cur t = Some (Step u w k) ->
    existsb (Nat.eqb u) (c_poisoned c) = true ->
    cstep directed c tid =
      (mkC (c_heap c) (c_poisoned c) (set_nth (c_threads c) tid (mkT None (t_rest t) (t_results t) TPanic)),
       Some (tid, u, w)).
  Proof.
    intros Hn Hs Hc Hp. unfold Conc.cstep. rewrite Hn, Hs, Hc, Hp. reflexivity.
  Qed.

  Lemma cstep_threads directed (c : config) tid :
    c_threads (fst (cstep directed c tid)) = c_threads c \/
    exists t', c_threads (fst (cstep directed c tid)) = set_nth (c_threads c) tid t'.
  Proof.
    destruct (cstep_dich directed c tid) as [Hid|(t & u & w & k & Hn & Hs & Hc)].
    - left. now rewrite Hid.
    - right. destruct (existsb (Nat.eqb u) (c_poisoned c)) eqn:Hp.
      + rewrite (cstep_run_p directed c tid _ _ _ _ Hn Hs Hc Hp). eexists. reflexivity.
      + rewrite (cstep_run_np directed c tid _ _ _ _ Hn Hs Hc Hp). eexists. reflexivity.
  Qed.

  Lemma cstep_other directed (c : config) tid j :
    j <> tid -> nth_error (c_threads (fst (cstep directed c tid))) j = nth_error (c_threads c) j.
  Proof.
    intros Hne. destruct (cstep_threads directed c tid) as [H|(t' & H)]; rewrite H; [reflexivity|].
    now apply nth_error_set_nth_other.
  Qed.

  Lemma cstep_event directed (c : config) tid t u w k :
    nth_error (c_threads c) tid = Some t -> t_status t = TRun -> t_cur t = Some (Step u w k) ->
    snd (cstep directed c tid) = Some (tid, u, w).
  Proof.
    intros Hn Hs Hc. destruct (existsb (Nat.eqb u) (c_poisoned c)) eqn:Hp.
    - now rewrite (cstep_run_p directed c tid _ _ _ _ Hn Hs Hc Hp).
    - now rewrite (cstep_run_np directed c tid _ _ _ _ Hn Hs Hc Hp).
  Qed.

  (* every property preserved by the atomic steps holds at the end of every scheduled run *)
  Lemma run_sched_inv directed (P : config -> Prop) :
    (forall c tid, P c -> P (fst (cstep directed c tid))) ->
    forall fuel c sched evs, P c -> P (fst (run_sched keqb directed fuel c sched evs)).
  Proof.
    intros Hstep. induction fuel as [|f IH]; intros c sched evs Hc; cbn [run_sched]; [exact Hc|].
    cbv zeta.
    match goal with |- P (fst (match ?pk with Some _ => _ | None => _ end)) => destruct pk as [tid|] end;
      [|exact Hc].
    specialize (Hstep c tid Hc). destruct (cstep directed c tid) as [c1 [ev|]]; cbn [fst] in Hstep.
    - now apply IH.
    - exact Hstep.
  Qed.

  (* ------------------------------------------------------------------ *)
  (* 1. deadlock freedom                                                 *)
  (* ------------------------------------------------------------------ *)
  Definition GInv (c : gconfig) : Prop :=
    (forall tid, length (filter (fun g => Nat.eqb (g_tid g) tid) (gc_held c)) <= 1) /\
    (forall g, In g (gc_held c) ->
       exists t u w k, nth_error (c_threads (gc_cfg c)) (g_tid g) = Some t /\ t_status t = TRun /\
                       t_cur t = Some (Step u w k) /\ g_node g = u /\ g_write g = w).

  Lemma gstep_cases directed (c : gconfig) tid c' :
    gstep directed c tid = GMoved c' ->
    exists t u w k, nth_error (c_threads (gc_cfg c)) tid = Some t /\ t_status t = TRun /\
                    t_cur t = Some (Step u w k) /\
      ((holds (gc_held c) tid = true /\
        c' = mkGC (fst (cstep directed (gc_cfg c) tid))
                  (filter (fun g => negb (Nat.eqb (g_tid g) tid)) (gc_held c))) \/
       (holds (gc_held c) tid = false /\ conflicts (gc_held c) tid u w = false /\
        c' = mkGC (gc_cfg c) (mkG tid u w :: gc_held c))).
  Proof.
    unfold Conc.gstep. destruct (nth_error (c_threads (gc_cfg c)) tid) as [t|] eqn:Hn; [|discriminate].
    destruct (t_status t) eqn:Hs; try discriminate.
    destruct (t_cur t) as [[r|u w k|o|]|] eqn:Hc; try discriminate.
    intros H. exists t, u, w, k. split; [reflexivity|]. split; [assumption|]. split; [assumption|].
    destruct (holds (gc_held c) tid) eqn:Hh.
    - left. split; [reflexivity|]. now inversion H.
    - destruct (conflicts (gc_held c) tid u w) eqn:Hcf; [discriminate|].
      right. split; [reflexivity|]. split; [reflexivity|]. now inversion H.
  Qed.

  Lemma GInv_step directed (c : gconfig) tid c' :
    GInv c -> gstep directed c tid = GMoved c' -> GInv c'.
  Proof.
    intros [Ha Hb] Hg.
    destruct (gstep_cases directed c tid _ Hg) as (t & u & w & k & Hn & Hs & Hc & [[Hh ->]|(Hh & Hcf & ->)]);
      unfold GInv; cbn [gc_held gc_cfg]; split.
    - intros tid'. eapply Nat.le_trans; [apply filter_filter_length|apply Ha].
    - intros g Hin. apply filter_In in Hin as [Hin Hne].
      apply negb_true_iff, Nat.eqb_neq in Hne.
      destruct (Hb g Hin) as (t0 & u0 & w0 & k0 & Hn0 & H0).
      exists t0, u0, w0, k0. split; [|exact H0]. rewrite cstep_other; assumption.
    - intros tid'. cbn [filter g_tid]. destruct (Nat.eqb_spec tid tid') as [<-|Hne]; [|apply Ha].
      cbn [length]. unfold holds in Hh. rewrite (existsb_false_filter _ _ _ Hh). cbn [length]. lia.
    - intros g [<-|Hin]; [|now apply Hb].
      cbn [g_tid g_node g_write]. exists t, u, w, k. auto.
  Qed.

  Lemma GInv_reach directed (c0 c : gconfig) :
    GInv c0 -> greach keqb directed c0 c -> GInv c.
  Proof. intros H0 Hr. induction Hr as [|c tid c' _ IH Hg]; [exact H0|]. eapply GInv_step; eauto. Qed.

  Lemma GInv_init directed h progs : GInv (ginit keqb directed h progs).
  Proof. split; cbn [ginit gc_held filter length]; [intros _; lia|intros g []]. Qed.

  (* ------------------------------------------------------------------ *)
  (* 2. panic freedom without isolate                                    *)
  (* ------------------------------------------------------------------ *)
  Inductive NoAbort : prog -> Prop :=
  | NA_ret r : NoAbort (Ret K V r)
  | NA_step u w k : (forall h, NoAbort (snd (k h))) -> NoAbort (Step u w k)
  | NA_fuel : NoAbort (Fuel K V E).

  Definition no_isolate (calls : list call) : Prop := forall u, ~ In (CIsolate K E u) calls.

  Lemma NoAbort_iter fuel get u : forall pos acc, NoAbort (m_iter fuel get u pos acc).
  Proof.
    induction fuel as [|f IH]; intros pos acc; cbn [m_iter]; constructor.
    intros h. cbn [snd]. destruct (get h pos); [apply IH|constructor].
  Qed.

  Ltac na :=
    repeat first
      [ apply NoAbort_iter
      | apply NA_ret | apply NA_fuel
      | apply NA_step; intros ?h; cbn [snd fst]
      | match goal with
        | |- NoAbort (snd (match ?x with _ => _ end)) => destruct x; cbn [snd fst]
        | |- NoAbort (match ?x with _ => _ end) => destruct x
        end ].

  Lemma NoAbort_prog_of directed (c : call) :
    (forall u, c <> CIsolate K E u) -> NoAbort (prog_of directed c).
  Proof.
    intros Hni. destruct c as [u v e|u v e|u k|u|u|u|u|u k|u|u]; destruct directed; cbn [Conc.prog_of];
      try (exfalso; eapply Hni; reflexivity);
      unfold m_connect, m_try_connect_d, m_try_connect_u, m_disconnect_d, m_disconnect_u,
        m_out_degree, m_degree_u, m_in_degree, m_is_orphan_d, m_is_orphan_u, m_is_leaf,
        m_is_connected_d, m_is_connected_u, m_read, m_connect; na.
  Qed.

  Definition TI2 (t : thread) : Prop :=
    t_status t <> TPanic /\ (forall p, t_cur t = Some p -> NoAbort p) /\ no_isolate (t_rest t).

  Lemma settle_TI2 directed n : forall t, TI2 t -> TI2 (settle directed n t).
  Proof.
    induction n as [|n IH]; intros t HT; [exact HT|]. pose proof HT as (Hs & Hc & Hr).
    cbn [Conc.settle]. destruct (t_status t) eqn:Est; try exact HT.
    destruct (t_cur t) as [[r|u w k|o|]|] eqn:Ecur.
    - apply IH. repeat split; cbn; [discriminate|intros p Hp; discriminate|exact Hr].
    - exact HT.
    - specialize (Hc _ eq_refl). inversion Hc.
    - repeat split; cbn; [discriminate|intros p Hp; discriminate|exact Hr].
    - destruct (t_rest t) as [|c r] eqn:Erest.
      + repeat split; cbn; [discriminate|intros p Hp; discriminate|intros u []].
      + apply IH. repeat split; cbn [t_status t_cur t_rest].
        * discriminate.
        * intros p Hp. inversion Hp; subst p. apply NoAbort_prog_of.
          intros u ->. apply (Hr u). now left.
        * intros u Hin. apply (Hr u). now right.
  Qed.

  Definition Inv2 (c : config) : Prop := c_poisoned c = [] /\ forall t, In t (c_threads c) -> TI2 t.

  Lemma Inv2_step directed (c : config) tid : Inv2 c -> Inv2 (fst (cstep directed c tid)).
  Proof.
    intros [Hp Ht]. destruct (cstep_dich directed c tid) as [Hid|(t & u & w & k & Hn & Hs & Hc)].
    - rewrite Hid. now split.
    - assert (Hnp : existsb (Nat.eqb u) (c_poisoned c) = false) by now rewrite Hp.
      rewrite (cstep_run_np directed c tid _ _ _ _ Hn Hs Hc Hnp). cbn [fst].
      assert (Hti : TI2 t) by (apply Ht; eapply nth_error_In; eauto).
      destruct Hti as (_ & Hcur & Hrest). specialize (Hcur _ Hc). inversion Hcur as [|u' w' k' Hk|]; subst.
      specialize (Hk (c_heap c)).
      split; cbn [c_poisoned c_threads].
      + destruct (snd (k (c_heap c))) as [r|u1 w1 k1|o|]; try exact Hp. inversion Hk.
      + intros t' Hin. apply In_set_nth in Hin as [->|Hin]; [|now apply Ht].
        apply settle_TI2. repeat split; cbn [t_status t_cur t_rest]; [discriminate| |exact Hrest].
        intros p Hp'. inversion Hp'; subst p. exact Hk.
  Qed.

  Lemma Inv2_init directed h progs :
    (forall p, In p progs -> no_isolate p) -> Inv2 (init_config keqb directed h progs).
  Proof.
    intros Hni. split; [reflexivity|]. cbn [init_config c_threads]. intros t Hin.
    apply in_map_iff in Hin as (p & <- & Hp). unfold mk_thread. apply settle_TI2.
    repeat split; cbn; [discriminate|intros q Hq; discriminate|now apply Hni].
  Qed.

  (* ------------------------------------------------------------------ *)
  (* 3. connect/query programs: the mirror holds up to the pending       *)
  (*    second halves                                                    *)
  (* ------------------------------------------------------------------ *)
  Definition cq_call (c : call) : Prop :=
    match c with
    | CConnect _ _ _ _ | CDegree _ _ _ | CInDegree _ _ _ | CIsOrphan _ _ _
    | CIsConnected _ _ _ | CIter _ _ _ | CIterIn _ _ _ => True
    | _ => False
    end.
  Definition only_connect_query (calls : list call) : Prop := forall c, In c calls -> cq_call c.
  (* the invariant also covers try_connect (a read followed by a connect) *)
  Definition cq_call_ext (c : call) : Prop :=
    match c with CTryConnect _ _ _ _ => True | _ => cq_call c end.
  Definition ocq_ext (calls : list call) : Prop := forall c, In c calls -> cq_call_ext c.
  Lemma ocq_weaken calls : only_connect_query calls -> ocq_ext calls.
  Proof. intros H c Hin. specialize (H c Hin). destruct c; cbn in *; auto. Qed.

  (* the edge values of the pending entries from a to b *)
  Definition pendto (a b : nat) (pd : list (nat * nat * E)) : list E :=
    map snd (filter (fun x => Nat.eqb (fst (fst x)) a && Nat.eqb (snd (fst x)) b) pd).

  Lemma pendto_app a b l1 l2 : pendto a b (l1 ++ l2) = pendto a b l1 ++ pendto a b l2.
  Proof. unfold pendto. now rewrite filter_app, map_app. Qed.

  Lemma outs_push (h : heap) u v e a b :
    to_ b (outs (set_outs h u (outs h u ++ [(v, e)])) a) = to_ b (outs h a) ++ pendto a b [(u, v, e)].
  Proof.
    cbn [outs set_outs]. unfold pendto. cbn [filter map fst snd].
    destruct (Nat.eqb_spec u a) as [->|Hne].
    - rewrite upd_same, to_app. f_equal. unfold to_. cbn [filter map fst snd andb].
      destruct (Nat.eqb v b); reflexivity.
    - rewrite upd_other by congruence. cbn [andb map]. now rewrite app_nil_r.
  Qed.

  Lemma ins_push (h : heap) u v e a b :
    to_ a (ins (set_ins h v (ins h v ++ [(u, e)])) b) = to_ a (ins h b) ++ pendto a b [(u, v, e)].
  Proof.
    cbn [ins set_ins]. unfold pendto. cbn [filter map fst snd].
    destruct (Nat.eqb_spec v b) as [->|Hne].
    - rewrite upd_same, to_app. f_equal. unfold to_. cbn [filter map fst snd].
      rewrite andb_true_r. destruct (Nat.eqb u a); reflexivity.
    - rewrite upd_other by congruence. rewrite andb_false_r. cbn [map]. now rewrite app_nil_r.
  Qed.

  (* the program is the second half of m_connect u v e *)
  Definition Half (p : prog) (u v : nat) (e : E) : Prop :=
    exists k2, p = Step v true k2 /\
               forall h, k2 h = (set_ins h v (ins h v ++ [(u, e)]), Ret K V (RO OkU)).

  (* programs of connect/query calls that have no pending second half *)
  Inductive CQ : prog -> Prop :=
  | CQ_ret r : CQ (Ret K V r)
  | CQ_fuel : CQ (Fuel K V E)
  | CQ_read u w k : (forall h, fst (k h) = h) -> (forall h, CQ (snd (k h))) -> CQ (Step u w k)
  | CQ_conn u v e k : (forall h, fst (k h) = set_outs h u (outs h u ++ [(v, e)])) ->
                      (forall h, Half (snd (k h)) u v e) -> CQ (Step u true k).

  Lemma CQ_iter fuel get u : forall pos acc, CQ (m_iter fuel get u pos acc).
  Proof.
    induction fuel as [|f IH]; intros pos acc; cbn [m_iter]; [apply CQ_fuel|].
    apply CQ_read; intros h; cbn [fst snd]; [reflexivity|].
    destruct (get h pos); [apply IH|apply CQ_ret].
  Qed.

  Lemma CQ_read_ret u (f : heap -> cres E) : CQ (m_read u f).
  Proof. unfold m_read. apply CQ_read; intros h; cbn [fst snd]; [reflexivity|apply CQ_ret]. Qed.

  Lemma CQ_connect u v e : CQ (m_connect K V u v e).
  Proof.
    unfold m_connect. apply CQ_conn with (v := v) (e := e); intros h; cbn [fst snd]; [reflexivity|].
    eexists. split; [reflexivity|]. intros h'. reflexivity.
  Qed.

  Lemma CQ_prog_of directed (c : call) : cq_call_ext c -> CQ (prog_of directed c).
  Proof.
    destruct c as [u v e|u v e|u k|u|u|u|u|u k|u|u]; cbn [cq_call_ext cq_call]; intros Hc; try destruct Hc;
      destruct directed; cbn [Conc.prog_of]; try apply CQ_iter; try apply CQ_read_ret; try apply CQ_connect.
    - unfold m_try_connect_d. apply CQ_read; intros h; cbn [fst snd]; [reflexivity|].
      destruct (keyof h v) as [kv|]; [|apply CQ_ret].
      destruct (is_connected_d keqb h u kv); [apply CQ_ret|apply CQ_connect].
    - unfold m_try_connect_u. apply CQ_read; intros h; cbn [fst snd]; [reflexivity|].
      destruct (keyof h v) as [kv|]; [|apply CQ_ret].
      destruct (is_connected_u keqb h u kv); [apply CQ_ret|apply CQ_connect].
    - unfold m_is_orphan_d. apply CQ_read; intros h; cbn [fst snd]; [reflexivity|].
      destruct (is_root h u); [apply CQ_read_ret|apply CQ_ret].
  Qed.

  Lemma CQ_pois (p : prog) (l : list nat) :
    CQ p -> match p with Abort _ _ _ (Some v) => v :: l | _ => l end = l.
  Proof. intros H. destruct H; reflexivity. Qed.

  (* a thread and the list of its pending entries (none or one) *)
  Definition TI3 (t : thread) (x : list (nat * nat * E)) : Prop :=
    ocq_ext (t_rest t) /\
    ((x = [] /\ forall p, t_cur t = Some p -> CQ p) \/
     (exists u v e p, x = [(u, v, e)] /\ t_status t = TRun /\ t_cur t = Some p /\ Half p u v e)).

  Lemma settle_step directed n (t : thread) u w k :
    t_cur t = Some (Step u w k) -> settle directed n t = t.
  Proof.
    intros Hc. destruct n as [|n]; [reflexivity|]. cbn [Conc.settle].
    destruct (t_status t); try reflexivity. now rewrite Hc.
  Qed.

  Lemma settle_TQ directed n : forall t,
    ocq_ext (t_rest t) -> (forall p, t_cur t = Some p -> CQ p) ->
    TI3 (settle directed n t) [].
  Proof.
    induction n as [|n IH]; intros t Hr Hc; [split; [exact Hr|left; now split]|].
    assert (HT : TI3 t []) by (split; [exact Hr|left; now split]).
    cbn [Conc.settle]. destruct (t_status t) eqn:Est; try exact HT.
    destruct (t_cur t) as [[r|u w k|o|]|] eqn:Ecur.
    - apply IH; cbn [t_rest t_cur]; [exact Hr|intros p Hp; discriminate].
    - exact HT.
    - specialize (Hc _ eq_refl). inversion Hc.
    - split; cbn [t_rest t_cur]; [exact Hr|left; split; [reflexivity|intros p Hp; discriminate]].
    - destruct (t_rest t) as [|c r] eqn:Erest.
      + split; cbn [t_rest t_cur]; [intros c []|left; split; [reflexivity|intros p Hp; discriminate]].
      + apply IH; cbn [t_rest t_cur].
        * intros c' Hin. apply Hr. now right.
        * intros p Hp. inversion Hp; subst p. apply CQ_prog_of. apply Hr. now left.
  Qed.

  Definition Inv3 (c : config) : Prop :=
    c_poisoned c = [] /\
    exists pds, Forall2 TI3 (c_threads c) pds /\
      forall a b, Permutation (to_ b (outs (c_heap c) a)) (to_ a (ins (c_heap c) b) ++ pendto a b (concat pds)).

  Lemma Inv3_step directed (c : config) tid : Inv3 c -> Inv3 (fst (cstep directed c tid)).
  Proof.
    intros (Hp & pds & HF & Hperm).
    destruct (cstep_dich directed c tid) as [Hid|(t & u & w & k & Hn & Hs & Hc)].
    { rewrite Hid. split; [exact Hp|]. exists pds. now split. }
    assert (Hnp : existsb (Nat.eqb u) (c_poisoned c) = false) by now rewrite Hp.
    rewrite (cstep_run_np directed c tid _ _ _ _ Hn Hs Hc Hnp). cbn [fst].
    destruct (nth_error_split _ _ Hn) as (l1 & l2 & Hts & Hlen).
    rewrite Hts in HF. apply Forall2_app_inv_l in HF as (p1 & p2' & HF1 & HF2 & ->).
    inversion HF2 as [|t' x l2' p2 HT HF2' E1 E2]; subst t' l2' p2'. clear HF2.
    rewrite Hts, <- Hlen, set_nth_app.
    assert (Hcat : forall y, concat (p1 ++ y :: p2) = concat p1 ++ y ++ concat p2)
      by (intros y; now rewrite concat_app).
    destruct HT as (Hrest & [(-> & Hcq)|(u0 & v0 & e0 & p & -> & _ & Hc' & Hhalf)]).
    - specialize (Hcq _ Hc). inversion Hcq as [| |u' w' k' Hfst Hk|u' v e k' Hfst Hk]; subst.
      + (* a read-only critical section *)
        split; cbn [c_poisoned c_heap c_threads].
        * rewrite CQ_pois by apply Hk. exact Hp.
        * exists (p1 ++ [] :: p2). split.
          -- apply Forall2_app; [exact HF1|]. constructor; [|exact HF2'].
             apply settle_TQ; cbn [t_rest t_cur]; [exact Hrest|].
             intros p Hp'. inversion Hp'; subst p. apply Hk.
          -- rewrite Hfst. exact Hperm.
      + (* first half of a connect *)
        destruct (Hk (c_heap c)) as (k2 & Hk2 & Hk2s).
        split; cbn [c_poisoned c_heap c_threads].
        * rewrite Hk2. exact Hp.
        * exists (p1 ++ [(u, v, e)] :: p2). split.
          -- apply Forall2_app; [exact HF1|]. constructor; [|exact HF2'].
             rewrite Hk2. rewrite (settle_step directed _ _ v true k2) by reflexivity.
             split; cbn [t_rest t_cur t_status]; [exact Hrest|].
             right. exists u, v, e, (Step v true k2). repeat split. exists k2. now split.
          -- intros a b. rewrite Hfst, outs_push. cbn [ins set_outs].
             rewrite Hcat, !pendto_app. specialize (Hperm a b). rewrite Hcat, !pendto_app in Hperm.
             change (pendto a b []) with (@nil E) in Hperm. cbn [app] in Hperm.
             rewrite Hperm. rewrite <- !app_assoc. do 2 apply Permutation_app_head.
             apply Permutation_app_comm.
    - (* second half of a connect *)
      rewrite Hc in Hc'. inversion Hc'; subst p. clear Hc'.
      destruct Hhalf as (k2 & Heq & Hk2). inversion Heq; subst.
      split; cbn [c_poisoned c_heap c_threads].
      + rewrite Hk2. cbn [snd]. exact Hp.
      + exists (p1 ++ [] :: p2). split.
        * apply Forall2_app; [exact HF1|]. constructor; [|exact HF2'].
          apply settle_TQ; cbn [t_rest t_cur]; [exact Hrest|].
          intros p Hp'. inversion Hp'; subst p. rewrite Hk2. cbn [snd]. apply CQ_ret.
        * intros a b. rewrite Hk2. cbn [fst]. rewrite ins_push. cbn [outs set_ins].
          rewrite Hcat, !pendto_app. specialize (Hperm a b). rewrite Hcat, !pendto_app in Hperm.
          change (pendto a b []) with (@nil E). cbn [app]. rewrite Hperm.
          rewrite <- !app_assoc. apply Permutation_app_head.
          rewrite !app_assoc. apply Permutation_app_tail. apply Permutation_app_comm.
  Qed.

  Lemma Inv3_init directed h progs :
    (forall u v, Permutation (to_ v (outs h u)) (to_ u (ins h v))) ->
    (forall p, In p progs -> ocq_ext p) ->
    Inv3 (init_config keqb directed h progs).
  Proof.
    intros Hm Hq. split; [reflexivity|]. cbn [init_config c_threads c_heap].
    exists (map (fun _ => []) progs). split.
    - induction progs as [|p r IH]; cbn [map]; constructor.
      + unfold mk_thread. apply settle_TQ; cbn [t_rest t_cur]; [apply Hq; now left|intros q Hq'; discriminate].
      + apply IH. intros q Hin. apply Hq. now right.
    - intros a b. replace (concat (map (fun _ => []) progs)) with (@nil (nat * nat * E)).
      + cbn. rewrite app_nil_r. apply Hm.
      + clear. induction progs as [|p r IH]; cbn; [reflexivity|exact IH].
  Qed.

  Lemma TI3_done (ts : list thread) pds :
    Forall2 TI3 ts pds ->
    forallb (fun t => match t_status t with TDone => true | _ => false end) ts = true ->
    concat pds = [].
  Proof.
    induction 1 as [|t x ts pds HT HF IH]; [reflexivity|].
    cbn [forallb concat]. intros Hd. apply andb_true_iff in Hd as [Ht Hd].
    rewrite (IH Hd), app_nil_r.
    destruct HT as (_ & [(-> & _)|(u & v & e & p & _ & Hs & _)]); [reflexivity|].
    rewrite Hs in Ht. discriminate.
  Qed.

  (* ------------------------------------------------------------------ *)
  (* 5. the explicit-guard semantics against the atomic one              *)
  (* ------------------------------------------------------------------ *)
  (* configurations reachable by effective atomic steps *)
  Inductive creach (directed : bool) (c0 : config) : config -> Prop :=
  | cr_refl : creach directed c0 c0
  | cr_step : forall c tid c' ev, creach directed c0 c -> cstep directed c tid = (c', Some ev) ->
                                  creach directed c0 c'.

  Lemma greach_creach directed (g0 c : gconfig) :
    greach keqb directed g0 c -> creach directed (gc_cfg g0) (gc_cfg c).
  Proof.
    induction 1 as [|c tid c' _ IH Hg]; [apply cr_refl|].
    destruct (gstep_cases directed c tid _ Hg) as (t & u & w & k & Hn & Hs & Hc & [[Hh ->]|(Hh & Hcf & ->)]);
      cbn [gc_cfg]; [|exact IH].
    pose proof (cstep_event directed (gc_cfg c) tid _ _ _ _ Hn Hs Hc) as Hev.
    destruct (cstep directed (gc_cfg c) tid) as [c1 o] eqn:Hst. cbn [snd fst] in *. subst o.
    eapply cr_step; [exact IH|exact Hst].
  Qed.

  (* conversely every atomic run is an explicit-guard run: ACQUIRE then BODY+RELEASE *)
  Lemma creach_greach directed (g0 : gconfig) c :
    gc_held g0 = [] -> creach directed (gc_cfg g0) c ->
    exists g, greach keqb directed g0 g /\ gc_cfg g = c /\ gc_held g = [].
  Proof.
    intros H0. induction 1 as [|c tid c' ev _ IH Hst].
    - exists g0. split; [apply gr_refl|now split].
    - destruct IH as (g & Hr & Hcfg & Hheld).
      destruct (cstep_dich directed c tid) as [Hid|(t & u & w & k & Hn & Hs & Hc)];
        [rewrite Hid in Hst; discriminate|].
      assert (H1 : gstep directed g tid = GMoved (mkGC (gc_cfg g) [mkG tid u w])).
      { unfold Conc.gstep. rewrite Hcfg, Hn, Hs, Hc, Hheld. reflexivity. }
      assert (H2 : gstep directed (mkGC (gc_cfg g) [mkG tid u w]) tid = GMoved (mkGC c' [])).
      { unfold Conc.gstep. cbn [gc_cfg gc_held]. rewrite Hcfg, Hn, Hs, Hc.
        unfold holds. cbn [existsb g_tid filter]. rewrite Nat.eqb_refl. cbn [orb negb].
        rewrite Hst. reflexivity. }
      exists (mkGC c' []). split; [|now split].
      eapply gr_step; [eapply gr_step; [exact Hr|exact H1]|exact H2].
  Qed.

  (* ------------------------------------------------------------------ *)
  (* final theorems (generic in K V E keqb)                              *)
  (* ------------------------------------------------------------------ *)
  Theorem one_guard_per_thread : forall directed (h : heap) progs c,
    greach keqb directed (ginit keqb directed h progs) c ->
    (forall tid, length (filter (fun g => Nat.eqb (g_tid g) tid) (gc_held c)) <= 1) /\
    (forall g, In g (gc_held c) ->
       exists t u w k, nth_error (c_threads (gc_cfg c)) (g_tid g) = Some t /\ t_status t = TRun /\
                       t_cur t = Some (Step u w k) /\ g_node g = u /\ g_write g = w).
  Proof. intros directed h progs c Hr. exact (GInv_reach directed _ c (GInv_init directed h progs) Hr). Qed.

  Theorem no_deadlock : forall directed (h : heap) progs c,
    greach keqb directed (ginit keqb directed h progs) c -> ~ deadlocked keqb directed c.
  Proof.
    intros directed h progs c Hr [Hunf Hno].
    destruct (one_guard_per_thread directed h progs c Hr) as [_ Hb].
    destruct (gc_held c) as [|g held] eqn:Hheld.
    - destruct Hunf as (tid & t & Hn & Hrun).
      apply runnable_inv in Hrun as (Hs & u & w & k & Hc).
      eapply (Hno tid). unfold Conc.gstep. rewrite Hn, Hs, Hc, Hheld. reflexivity.
    - destruct (Hb g (or_introl eq_refl)) as (t & u & w & k & Hn & Hs & Hc & _).
      eapply (Hno (g_tid g)). unfold Conc.gstep. rewrite Hn, Hs, Hc, Hheld.
      unfold holds. cbn [existsb]. rewrite Nat.eqb_refl. reflexivity.
  Qed.

  Theorem no_isolate_no_panic : forall directed (h : heap) progs fuel sched,
    (forall p, In p progs -> no_isolate p) ->
    let c := fst (run_sched keqb directed fuel (init_config keqb directed h progs) sched []) in
    c_poisoned c = [] /\ forall t, In t (c_threads c) -> t_status t <> TPanic.
  Proof.
    intros directed h progs fuel sched Hni c.
    assert (Hinv : Inv2 c).
    { apply (run_sched_inv directed Inv2 (Inv2_step directed)). now apply Inv2_init. }
    destruct Hinv as [Hp Ht]. split; [exact Hp|]. intros t Hin. now destruct (Ht t Hin).
  Qed.

  (* stronger than asked: try_connect may take part as well *)
  Theorem connect_try_quiescent_mirror : forall directed (h : heap) progs fuel sched,
    (forall u v, Permutation (to_ v (outs h u)) (to_ u (ins h v))) ->
    (forall p, In p progs -> ocq_ext p) ->
    let c := fst (run_sched keqb directed fuel (init_config keqb directed h progs) sched []) in
    all_done c = true ->
    forall u v, Permutation (to_ v (outs (c_heap c) u)) (to_ u (ins (c_heap c) v)).
  Proof.
    intros directed h progs fuel sched Hm Hq c Hdone u v.
    assert (Hinv : Inv3 c).
    { apply (run_sched_inv directed Inv3 (Inv3_step directed)). now apply Inv3_init. }
    destruct Hinv as (_ & pds & HF & Hperm).
    specialize (Hperm u v). rewrite (TI3_done _ _ HF Hdone) in Hperm.
    change (pendto u v []) with (@nil E) in Hperm. now rewrite app_nil_r in Hperm.
  Qed.

  Theorem connect_quiescent_mirror : forall directed (h : heap) progs fuel sched,
    (forall u v, Permutation (to_ v (outs h u)) (to_ u (ins h v))) ->
    (forall p, In p progs -> only_connect_query p) ->
    let c := fst (run_sched keqb directed fuel (init_config keqb directed h progs) sched []) in
    all_done c = true ->
    forall u v, Permutation (to_ v (outs (c_heap c) u)) (to_ u (ins (c_heap c) v)).
  Proof.
    intros directed h progs fuel sched Hm Hq. apply connect_try_quiescent_mirror; [exact Hm|].
    intros p Hp. apply ocq_weaken. now apply Hq.
  Qed.

  Theorem gstep_refines_cstep : forall directed (h : heap) progs c,
    greach keqb directed (ginit keqb directed h progs) c ->
    creach directed (init_config keqb directed h progs) (gc_cfg c).
  Proof. intros directed h progs c Hr. exact (greach_creach directed _ c Hr). Qed.

  Theorem cstep_refines_gstep : forall directed (h : heap) progs c,
    creach directed (init_config keqb directed h progs) c ->
    exists g, greach keqb directed (ginit keqb directed h progs) g /\ gc_cfg g = c /\ gc_held g = [].
  Proof. intros directed h progs c Hr. exact (creach_greach directed (ginit keqb directed h progs) c eq_refl Hr). Qed.

End ConcProof.

(* ------------------------------------------------------------------ *)
(* 4. refutations of the unrestricted property (K = V = E = nat)       *)
(* ------------------------------------------------------------------ *)
Definition heap2 : heap nat nat nat := fst (run_d Nat.eqb [ONew 5 0; ONew 3 0]).
Definition heap2_edge : heap nat nat nat := fst (run_d Nat.eqb [ONew 5 0; ONew 3 0; OConnect 0 1 9]).
Definition heap2_u : heap nat nat nat := fst (run_u Nat.eqb [ONew 5 0; ONew 3 0; OConnect 1 0 9]).

Definition run_n (directed : bool) (h : heap nat nat nat) (progs : list (list (call nat nat))) (sched : list nat)
  : config nat nat nat :=
  fst (run_sched Nat.eqb directed 100 (init_config Nat.eqb directed h progs) sched []).

(* isolate(0) concurrent with connect(0,1): the isolate loop meets the outbound half whose inbound half does
   not exist yet, unwraps the EdgeNotFound while holding node 1's write guard, and poisons it; the connect
   then panics on the poisoned lock *)
Theorem c17_refuted_panic : exists h progs sched,
  let c := run_n true h progs sched in
  (exists t, In t (c_threads c) /\ t_status t = TPanic) /\ c_poisoned c <> [].
Proof.
  exists heap2_edge, [[CIsolate nat nat 0]; [CConnect nat 0 1 7]], [1; 0; 0; 0; 0; 1].
  vm_compute. split; [|discriminate]. eexists. split; [left; reflexivity|reflexivity].
Qed.

(* connect(0,1,7) concurrent with disconnect(0, key 3): the disconnect removes the outbound half between the
   two halves of the connect, does not find the inbound half, returns EdgeNotFound; the connect then adds the
   inbound half: a half-edge at quiescence *)
Theorem c17_refuted_half_edge : exists h progs sched,
  let c := run_n true h progs sched in
  all_done c = true /\
  ~ Permutation (to_ 1 (outs (c_heap c) 0)) (to_ 0 (ins (c_heap c) 1)) /\
  (exists t, nth_error (c_threads c) 1 = Some t /\ t_results t = [RO ErrNotFound]).
Proof.
  exists heap2, [[CConnect nat 0 1 7]; [CDisconnect nat 0 3]], [0; 1; 1; 1; 0].
  cbv zeta. split; [vm_compute; reflexivity|]. split.
  - intros Hperm. apply Permutation_length in Hperm. vm_compute in Hperm. discriminate.
  - eexists. split; vm_compute; reflexivity.
Qed.

(* two connects of the same pair: the per-pair orders of the two lists differ *)
Theorem c17_refuted_order : exists h progs sched,
  let c := run_n true h progs sched in
  all_done c = true /\ outs (c_heap c) 0 = [(1, 7); (1, 8)] /\ ins (c_heap c) 1 = [(0, 8); (0, 7)].
Proof.
  exists heap2, [[CConnect nat 0 1 7]; [CConnect nat 0 1 8]], [0; 1; 1; 0].
  vm_compute. repeat split.
Qed.

(* two try_connects of the same pair both pass the is_connected check: both Ok, two parallel edges *)
Theorem c17_refuted_try : exists h progs sched,
  let c := run_n true h progs sched in
  all_done c = true /\ map (@t_results nat nat nat) (c_threads c) = [[RO OkU]; [RO OkU]] /\
  outs (c_heap c) 0 = [(1, 7); (1, 8)].
Proof.
  exists heap2, [[CTryConnect nat 0 1 7]; [CTryConnect nat 0 1 8]], [0; 1; 0; 0; 1; 1].
  vm_compute. repeat split.
Qed.

(* undirected: iterating node 0 (position based over outbound ++ inbound) while a connect pushes an outbound
   entry shifts the inbound entries by one: the iterator hands out the same entry twice *)
Theorem c17_refuted_undirected_iter : exists h progs sched,
  let c := run_n false h progs sched in
  all_done c = true /\
  exists t l l1 x l2 l3, nth_error (c_threads c) 0 = Some t /\ t_results t = [REdges l] /\
                         l = l1 ++ x :: l2 ++ x :: l3.
Proof.
  exists heap2_u, [[CIter nat nat 0]; [CConnect nat 0 1 7]], [0; 1; 0; 0; 1].
  cbv zeta. split; [vm_compute; reflexivity|].
  eexists. exists [(0, 1, 9); (0, 1, 9)], [], (0, 1, 9), [], [].
  split; [vm_compute; reflexivity|]. split; vm_compute; reflexivity.
Qed.

Print Assumptions one_guard_per_thread.
Print Assumptions no_deadlock.
Print Assumptions no_isolate_no_panic.
Print Assumptions connect_quiescent_mirror.
Print Assumptions connect_try_quiescent_mirror.
Print Assumptions c17_refuted_panic.
Print Assumptions c17_refuted_half_edge.
Print Assumptions c17_refuted_order.
Print Assumptions c17_refuted_try.
Print Assumptions c17_refuted_undirected_iter.
Print Assumptions gstep_refines_cstep.
Print Assumptions cstep_refines_gstep.
