(* AutoTraitsProof.v — C16: (Send, Sync) of Node/Edge/Graph of every flavour, for all 64 combinations of
   the (Send, Sync) bits of K, N, E, computed from the declarations that tools/rs2coq_types.py regenerates
   from /repo's source on every run (coq/gen/TypesGen.v).  Proofs are by case analysis + computation. *)
From Gdsl.Model Require Import AutoTraits.
From Gdsl.Gen Require Import TypesGen.
Open Scope string_scope.

Ltac by_cases := intros [] [] [] [] [] []; vm_compute; repeat split; reflexivity.

Definition exact_sync (ds : list decl) : Prop :=
  forall ks kc ns nc es ec : bool,
    let e := mk_env ks kc ns nc es ec in
    solve ds e "Node" = (all_ss e, all_ss e) /\
    solve ds e "Edge" = (all_ss e, all_ss e) /\
    solve ds e "Graph" = (all_ss e, all_ss e).

Definition never (ds : list decl) : Prop :=
  forall ks kc ns nc es ec : bool,
    let e := mk_env ks kc ns nc es ec in
    solve ds e "Node" = (false, false) /\
    solve ds e "Edge" = (false, false) /\
    solve ds e "Graph" = (false, false).

Lemma sync_digraph_exact : exact_sync sync_digraph_decls.
Proof. unfold exact_sync. by_cases. Qed.

Lemma sync_ungraph_exact : exact_sync sync_ungraph_decls.
Proof. unfold exact_sync. by_cases. Qed.

Lemma digraph_never : never digraph_decls.
Proof. unfold never. by_cases. Qed.

Lemma ungraph_never : never ungraph_decls.
Proof. unfold never. by_cases. Qed.

(* the tables used above are fixpoints of the structural equations (solve iterates long enough) *)
Lemma tables_are_fixpoints :
  forallb (fun ds => forallb (is_fixpoint ds) all_envs)
          [digraph_decls; sync_digraph_decls; ungraph_decls; sync_ungraph_decls] = true.
Proof. vm_compute. reflexivity. Qed.
