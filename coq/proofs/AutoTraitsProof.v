(* AutoTraitsProof.v — C16: (Send, Sync) of Node/Edge/Graph of every flavour, for all 64 combinations of
   the (Send, Sync) bits of K, N, E, computed from the declarations that tools/rs2coq_types.py regenerates
   from /repo's source on every run (coq/gen/TypesGen.v).  Proofs are by case analysis + computation. *)
From Gdsl.Model Require Import AutoTraits.
From Gdsl.Gen Require Import TypesGen.
Open Scope string_scope.

Ltac by_cases := intros [] [] [] [] [] []; vm_compute; repeat split; reflexivity.

Definition exact_sync (ds : list decl) : Prop :=
  forall ks kc ns nc es ec : bool,
    let e := mk_env ks kc ns nc es ec in
    solve ds e "Node" = (all_ss e, all_ss e) /\
    solve ds e "Edge" = (all_ss e, all_ss e) /\
    solve ds e "Graph" = (all_ss e, all_ss e).

Definition never (ds : list decl) : Prop :=
  forall ks kc ns nc es ec : bool,
    let e := mk_env ks kc ns nc es ec in
    solve ds e "Node" = (false, false) /\
    solve ds e "Edge" = (false, false) /\
    solve ds e "Graph" = (false, false).

Lemma sync_digraph_exact : exact_sync sync_digraph_decls.
Proof. unfold exact_sync. by_cases. Qed.

Lemma sync_ungraph_exact : exact_sync sync_ungraph_decls.
Proof. unfold exact_sync. by_cases. Qed.

Lemma digraph_never : never digraph_decls.
Proof. unfold never. by_cases. Qed.

Lemma ungraph_never : never ungraph_decls.
Proof. unfold never. by_cases. Qed.

(* the tables used above are fixpoints of the structural equations (solve iterates long enough) *)
Lemma tables_are_fixpoints :
  forallb (fun ds => forallb (is_fixpoint ds) all_envs)
          [digraph_decls; sync_digraph_decls; ungraph_decls; sync_ungraph_decls] = true.
Proof. vm_compute. reflexivity. Qed.

(* "Consequently no safe program can reach a node value or edge value from two threads without the synchronisation that
   value's own type provides": an explicit `unsafe impl Send/Sync` REPLACES the structural rule, so the exactness
   statements above only restate its where-clause.  What makes the unsafe impl sound is that it claims no more than the
   fields justify: with every explicit impl stripped from the regenerated declarations, the purely structural
   auto-trait computation gives the same (Send, Sync) for Node, Edge and Graph of every flavour and every environment. *)
Definition strip (d : decl) : decl := mkDecl (d_name d) (d_fields d) None None.

Definition impls_justified (ds : list decl) : Prop :=
  forall ks kc ns nc es ec : bool,
    let e := mk_env ks kc ns nc es ec in
    solve (map strip ds) e "Node" = solve ds e "Node" /\
    solve (map strip ds) e "Edge" = solve ds e "Edge" /\
    solve (map strip ds) e "Graph" = solve ds e "Graph".

Ltac by_cases3 := intros [] [] [] [] [] []; vm_compute; (split; [reflexivity|split; reflexivity]).

Lemma impls_justified_sync_digraph : impls_justified sync_digraph_decls.
Proof. unfold impls_justified. by_cases3. Qed.
Lemma impls_justified_sync_ungraph : impls_justified sync_ungraph_decls.
Proof. unfold impls_justified. by_cases3. Qed.
Lemma impls_justified_digraph : impls_justified digraph_decls.
Proof. unfold impls_justified. by_cases3. Qed.
Lemma impls_justified_ungraph : impls_justified ungraph_decls.
Proof. unfold impls_justified. by_cases3. Qed.

Lemma unsafe_impls_claim_only_what_the_fields_justify :
  impls_justified sync_digraph_decls /\ impls_justified sync_ungraph_decls /\
  impls_justified digraph_decls /\ impls_justified ungraph_decls.
Proof.
  exact (conj impls_justified_sync_digraph (conj impls_justified_sync_ungraph (conj impls_justified_digraph impls_justified_ungraph))).
Qed.

(* the statement has teeth: declarations whose Node is an Rc around a RefCell, carrying the SAME unsafe impls as
   sync_digraph, still satisfy the exactness statement (the impl replaces the structural rule) but are rejected here *)
Definition allb : bounds := mkBounds (fun _ => true) (fun _ => true).
Definition rc_node_with_unsafe_impls : list decl := [
  mkDecl "Node" [TApp CRc [TTuple [TParam PK; TParam PN; TApp CRefCell [TNamed "Adjacent"]]]] (Some allb) (Some allb);
  mkDecl "WeakNode" [TApp CRcWeak [TTuple [TParam PK; TParam PN; TApp CRefCell [TNamed "Adjacent"]]]] None None;
  mkDecl "Adjacent" [TApp CVec [TTuple [TNamed "WeakNode"; TParam PE]]; TApp CVec [TTuple [TNamed "WeakNode"; TParam PE]]] None None;
  mkDecl "Edge" [TNamed "Node"; TNamed "Node"; TParam PE] None None;
  mkDecl "Graph" [TApp CHashMap [TParam PK; TNamed "Node"]] None None ].

Example unjustified_impl_is_rejected :
  exact_sync rc_node_with_unsafe_impls /\ ~ impls_justified rc_node_with_unsafe_impls.
Proof.
  split; [unfold exact_sync; by_cases|].
  intro H. specialize (H true true true true true true). destruct H as [H _]. vm_compute in H. discriminate H.
Qed.
