(* DegreeU.v — C02, "degrees count every incident edge once per endpoint (a self-loop twice)", as a statement that is not
   the definition of degree(): the degree of u equals the number of times ALL nodes, u included, list an edge to u.
   An edge u--v (v <> u) is listed once at v towards u; a self-loop u--u is listed twice at u (its outbound and its
   inbound half), hence counted twice.  Consequence of the symmetry (adj_symmetric) and of Wf. *)
From Gdsl.Model Require Import Spec.
From Gdsl.Proofs Require Import NodeU Glue.
From Coq Require Import Lia.

Set Implicit Arguments.

Section DegreeU.
  Variables K V E : Type.
  Notation heap := (heap K V E).

  Definition sum_over (n : nat) (f : nat -> nat) : nat := fold_right (fun v acc => f v + acc) 0 (iota 0 n).

  (* how often the nodes 0..n-1 list an edge to u *)
  Definition listed_to (h : heap) (u : nat) : nat := sum_over (size h) (fun v => length (to_ u (adj_u h v))).

  Lemma fold_iota_ext : forall (f g : nat -> nat) n s, (forall v, s <= v < s + n -> f v = g v) ->
    fold_right (fun v acc => f v + acc) 0 (iota s n) = fold_right (fun v acc => g v + acc) 0 (iota s n).
  Proof.
    intros f g n. induction n as [|n IH]; intros s Hfg; simpl; [reflexivity|].
    rewrite (Hfg s) by lia. rewrite (IH (S s)); [reflexivity|]. intros v Hv. apply Hfg. lia.
  Qed.

  Lemma fold_iota_add : forall (f g : nat -> nat) n s,
    fold_right (fun v acc => (f v + g v) + acc) 0 (iota s n) =
    fold_right (fun v acc => f v + acc) 0 (iota s n) + fold_right (fun v acc => g v + acc) 0 (iota s n).
  Proof. intros f g n. induction n as [|n IH]; intros s; simpl; [reflexivity|]. rewrite IH. lia. Qed.

  Lemma fold_iota_zero : forall n s, fold_right (fun v acc => 0 + acc) 0 (iota s n) = 0.
  Proof. induction n as [|n IH]; intros s; simpl; [reflexivity|]. apply IH. Qed.

  (* one entry (w, e) contributes to exactly one class *)
  Lemma fold_iota_indicator : forall (w : nat) n s, s <= w < s + n ->
    fold_right (fun v acc => (if Nat.eqb w v then 1 else 0) + acc) 0 (iota s n) = 1.
  Proof.
    intros w n. induction n as [|n IH]; intros s Hw; simpl; [lia|].
    destruct (Nat.eqb_spec w s) as [Heq | Hneq].
    - subst. rewrite (@fold_iota_ext (fun v => if Nat.eqb s v then 1 else 0) (fun _ => 0)).
      + rewrite fold_iota_zero. reflexivity.
      + intros v Hv. destruct (Nat.eqb_spec s v); [lia|reflexivity].
    - rewrite IH by lia. reflexivity.
  Qed.

  (* a list whose first components are all below n splits into its classes by first component *)
  Lemma length_by_class : forall (l : list (nat * E)) n, (forall v e, In (v, e) l -> v < n) ->
    length l = sum_over n (fun v => length (to_ v l)).
  Proof.
    unfold sum_over. intros l n. induction l as [|[w e] l IH]; intros Hb.
    - simpl. rewrite (@fold_iota_ext (fun v => length (@to_ E v [])) (fun _ => 0)); [symmetry; apply fold_iota_zero|reflexivity].
    - assert (Hw : w < n) by (apply (Hb w e); left; reflexivity).
      rewrite (@fold_iota_ext (fun v => length (to_ v ((w, e) :: l)))
                              (fun v => (if Nat.eqb w v then 1 else 0) + length (to_ v l))).
      + rewrite fold_iota_add. rewrite fold_iota_indicator by lia. rewrite <- IH; [reflexivity|].
        intros v e' Hin. apply (Hb v e'). right. exact Hin.
      + intros v _. unfold to_. simpl. destruct (Nat.eqb w v); reflexivity.
  Qed.

  Theorem degree_u_counts_listings : forall h : heap, Mirror h -> Wf h -> forall u : nat,
    degree_u h u = listed_to h u.
  Proof.
    intros h Hm Hwf u. unfold listed_to, degree_u. rewrite <- app_length. fold (adj_u h u).
    rewrite (@length_by_class (adj_u h u) (size h)).
    - unfold sum_over. apply fold_iota_ext. intros v _. apply Permutation_length. apply adj_symmetric. exact Hm.
    - intros v e Hin. unfold adj_u in Hin. apply in_app_iff in Hin. destruct Hwf as [_ [Ho Hi]].
      destruct Hin as [Hin | Hin]; [eapply Ho | eapply Hi]; exact Hin.
  Qed.

  (* the self-loop clause, isolated: every self-loop half stored at u is matched by a second half at u, so the
     entries of u towards itself come in pairs: outbound halves towards u = inbound halves from u *)
  Theorem self_loops_counted_twice : forall h : heap, Mirror h -> forall u : nat,
    length (to_ u (adj_u h u)) = 2 * length (to_ u (outs h u)).
  Proof.
    intros h Hm u. unfold adj_u, to_. rewrite filter_app, map_app, app_length. fold (to_ u (outs h u)). fold (to_ u (ins h u)).
    rewrite <- (Hm u u). lia.
  Qed.

  (* C01: the same reading for the directed degrees: the out-degree of u is the number of incoming entries FROM u that all
     nodes report, the in-degree of u the number of outgoing entries TOWARDS u that all nodes report; an orphan is a node
     nobody lists and that lists nobody; the two degree totals of the graph agree. *)
  Theorem out_degree_counts_listings : forall h : heap, Mirror h -> Wf h -> forall u : nat,
    out_degree h u = sum_over (size h) (fun v => length (to_ u (ins h v))).
  Proof.
    intros h Hm Hwf u. unfold out_degree. rewrite (@length_by_class (outs h u) (size h)).
    - unfold sum_over. apply fold_iota_ext. intros v _. rewrite (Hm u v). reflexivity.
    - destruct Hwf as [_ [Ho _]]. intros v e Hin. eapply Ho. exact Hin.
  Qed.

  Theorem in_degree_counts_listings : forall h : heap, Mirror h -> Wf h -> forall u : nat,
    in_degree h u = sum_over (size h) (fun v => length (to_ u (outs h v))).
  Proof.
    intros h Hm Hwf u. unfold in_degree. rewrite (@length_by_class (ins h u) (size h)).
    - unfold sum_over. apply fold_iota_ext. intros v _. rewrite <- (Hm v u). reflexivity.
    - destruct Hwf as [_ [_ Hi]]. intros v e Hin. eapply Hi. exact Hin.
  Qed.


  Theorem orphan_iff_unlisted : forall h : heap, Mirror h -> Wf h -> forall u : nat,
    is_orphan h u = true <->
    sum_over (size h) (fun v => length (to_ u (outs h v))) = 0 /\ sum_over (size h) (fun v => length (to_ u (ins h v))) = 0.
  Proof.
    intros h Hm Hwf u. unfold is_orphan, is_root, is_leaf. rewrite Bool.andb_true_iff, !Nat.eqb_eq.
    rewrite (in_degree_counts_listings Hm Hwf u), (out_degree_counts_listings Hm Hwf u). tauto.
  Qed.
End DegreeU.
