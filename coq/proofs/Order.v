(* Order.v — the preorder / postorder loops of order.rs (machine [descend] without target)
   for pure callbacks: the recorded tree is the discovery resp. finishing order of one
   depth-first traversal. *)
From Gdsl.Model Require Import Base NodeOps Search Callback Spec.
From Coq Require Import Lia Permutation.
From Gdsl.Proofs Require Import Descend.

Set Implicit Arguments.

Section OrderTheorems.
  Variables K V E : Type.
  Variable keqb : K -> K -> bool.
  Hypothesis Hk : KeqbSpec keqb.
  Variable CB : Type.
  Variable cb : CB -> heap K V E -> edge E -> CB * heap K V E * bool.
  Variable accept : edge E -> bool.
  Variable vleb : V -> V -> bool.
  Variable h : heap K V E.
  Hypothesis Hwf : Wf h.
  Hypothesis Hinj : KeysInj h.
  Hypothesis Hpure : PureCb h cb accept.
  Variable d : dir.
  Variable root : nat.
  Hypothesis Hroot : root < size h.
  Variable c0 : CB.

  Notation OE post fuel := (order_edges keqb cb d post fuel h c0 root).
  Notation ON post fuel := (order_nodes keqb cb d post fuel h c0 root).

  (* without a target nothing is ever found *)
  Lemma run_none_not_found post f Vs u l es cs Vs' r :
    Run keqb accept h d None post f Vs u l es cs Vs' r -> forall v, r <> Found v.
  Proof.
    induction 1 as [Vs u l|f Vs u|f Vs u x l es cs Vs' r Hs HR IH|f Vs u x l Ha Hn Ht
                   |f Vs u x l es1 cs1 Vs1 r Ha Hn Ht HR IH Hr
                   |f Vs u x l es1 cs1 Vs1 es2 cs2 Vs2 r Ha Hn Ht HR1 IH1 HR2 IH2];
      intros v; try discriminate; auto.
  Qed.

  (* a finished order run is an exhausted run of the machine *)
  Lemma oe_exhausted fuel post st tree : OE post fuel = (st, Some tree) ->
    tree = s_tree st /\ s_heap st = h /\
    exists cs Vs', Run keqb accept h d None post fuel [root] root (adj_of h d root) tree cs Vs' Exhausted /\
                   s_cb st = fold_left (cbstep cb h) cs c0.
  Proof.
    intros H. unfold order_edges in H.
    destruct (descend keqb cb d None post fuel (init_st h c0 root true) root 0) as [st1 r] eqn:Hd.
    apply (oe_run Hk Hwf Hinj Hpure d Hroot) in Hd. destruct Hd as [cs [Vs' [HR [Hh Hc]]]].
    destruct r as [v| |].
    - exfalso. exact (run_none_not_found HR (eq_refl (Found v))).
    - inversion H as [[Hst Htree]]. rewrite <- Hst. split; [reflexivity|]. split; [exact Hh|]. exists cs, Vs'. auto.
    - discriminate.
  Qed.

  Theorem order_is_dfs_run : forall fuel post st tree, OE post fuel = (st, Some tree) ->
      exists pre pst S', DfsKids h d accept [root] root pre pst S' /\
        map (@edst E) tree = (if post then pst else pre) /\
        (forall v, In v S' <-> Reach h d accept root v) /\
        Permutation S' (root :: pre) /\ Permutation pre pst /\ NoDup (root :: pre).
  Proof.
    intros fuel post st tree H. apply oe_exhausted in H.
    destruct H as [_ [_ [cs [Vs' [HR _]]]]].
    destruct (exhausted_whole HR) as [pre [pst [HD [Hm [Hreach [Hperm [Hpp [Hnd _]]]]]]]].
    exists pre, pst, Vs'. repeat (split; [assumption|]). assumption.
  Qed.

  Theorem order_nodes_spec : forall fuel post st l, ON post fuel = (st, Some l) ->
      exists tree, OE post fuel = (st, Some tree) /\
        l = (if post then map (@edst E) tree ++ [root] else root :: map (@edst E) tree).
  Proof.
    intros fuel post st l H. unfold order_nodes in H.
    destruct (OE post fuel) as [st1 [t|]]; [|discriminate].
    inversion H; subst. exists t. auto.
  Qed.

  Theorem order_edges_tree : forall fuel post st tree, OE post fuel = (st, Some tree) ->
      Forall (good_edge h d accept) tree /\ NoDup (map (@edst E) tree) /\ ~ In root (map (@edst E) tree) /\
      (forall v, v <> root -> (Reach h d accept root v <-> In v (map (@edst E) tree))) /\
      (forall e, In e tree -> Reach h d accept root (esrc e)).
  Proof.
    intros fuel post st tree H. apply oe_exhausted in H.
    destruct H as [_ [_ [cs [Vs' [HR _]]]]].
    destruct (exhausted_whole HR) as [pre [pst [HD [Hm [Hreach [Hperm [Hpp [Hnd _]]]]]]]].
    assert (Hpt : Permutation pre (map (@edst E) tree)).
    { rewrite Hm. destruct post; [exact Hpp|apply Permutation_refl]. }
    assert (Hnd' : NoDup (root :: map (@edst E) tree)).
    { eapply Permutation_NoDup; [|exact Hnd]. now constructor. }
    inversion Hnd' as [|a l' Hnr Hndt]; subst.
    split; [|split; [|split; [|split]]]; auto.
    - apply (run_good HR), incl_refl.
    - intros v Hv. rewrite <- Hreach. split.
      + intros Hin. apply (Permutation_in _ Hperm) in Hin. destruct Hin as [Hin|Hin]; [congruence|].
        apply (Permutation_in _ Hpt Hin).
      + intros Hin. apply (Permutation_in _ (Permutation_sym Hperm)). right.
        apply (Permutation_in _ (Permutation_sym Hpt) Hin).
    - intros e He. apply (run_src_reach HR (incl_refl _) e He).
  Qed.

End OrderTheorems.

(* ------------------------------------------------------------------ *)
Section OrderRecorder.
  Variables K V E : Type.
  Variable keqb : K -> K -> bool.
  Hypothesis Hk : KeqbSpec keqb.
  Variable step : heap K V E -> op K V E -> heap K V E * outcome E.
  Variable pred : K -> K -> E -> bool.
  Variable h : heap K V E.
  Hypothesis Hwf : Wf h.
  Hypothesis Hinj : KeysInj h.
  Variable d : dir.
  Variable root : nat.
  Hypothesis Hroot : root < size h.

  Theorem descend_foreach_once : forall fuel post st tree,
      order_edges keqb (mk_cb step false pred []) d post fuel h (cb0 E) root = (st, Some tree) ->
      exists R, NoDup R /\ (forall v, In v R <-> Reach h d (fun _ => true) root v) /\
        Permutation (rev (c_trace (s_cb st)))
                    (flat_map (fun u => map (fun x => (u, fst x, snd x)) (adj_of h d u)) R).
  Proof.
    intros fuel post st tree H.
    apply (oe_exhausted Hk Hwf Hinj (recorder_pure step pred h) d Hroot) in H.
    destruct H as [Ht [_ [cs [Vs' [HR Hc]]]]]. subst tree.
    eapply recorder_once; eauto.
  Qed.
End OrderRecorder.

(* ------------------------------------------------------------------ *)
(* the finishing-order property of depth-first traversal (key lemma for Kosaraju's algorithm):
   an accepted edge a -> b leaving a discovered node either leads to a node that finishes before a,
   or to an ancestor of a (which reaches a) *)
Definition before (x y : nat) (l : list nat) : Prop :=
  exists l1 l2 l3, l = l1 ++ x :: l2 ++ y :: l3.

Lemma before_app_l x y l r : before x y l -> before x y (l ++ r).
Proof.
  intros [l1 [l2 [l3 H]]]. exists l1, l2, (l3 ++ r). rewrite H.
  repeat (rewrite <- app_assoc; cbn [app]). reflexivity.
Qed.

Lemma before_app_r x y l r : before x y r -> before x y (l ++ r).
Proof.
  intros [l1 [l2 [l3 H]]]. exists (l ++ l1), l2, l3. rewrite H. now rewrite <- app_assoc.
Qed.

Lemma before_mid_l x v l r : In x l -> before x v (l ++ v :: r).
Proof.
  intros Hx. apply in_split in Hx. destruct Hx as [l1 [l2 Hl]]. exists l1, l2, r. rewrite Hl.
  repeat (rewrite <- app_assoc; cbn [app]). reflexivity.
Qed.

Lemma before_mid_r v y l r : In y r -> before v y (l ++ v :: r).
Proof.
  intros Hy. apply in_split in Hy. destruct Hy as [r1 [r2 Hr]]. exists l, r1, r2. now rewrite Hr.
Qed.

Lemma before_split x y v l r : In x l -> In y r -> before x y (l ++ v :: r).
Proof.
  intros Hx Hy. apply in_split in Hx. destruct Hx as [l1 [l2 Hl]].
  apply in_split in Hy. destruct Hy as [r1 [r2 Hr]]. exists l1, (l2 ++ v :: r1), r2. rewrite Hl, Hr.
  repeat (rewrite <- app_assoc; cbn [app]). reflexivity.
Qed.

Section PostOrder.
  Variables K V E : Type.
  Variable h : heap K V E.
  Variable d : dir.
  Variable accept : edge E -> bool.

  Theorem post_edge_order : forall S u pre pst S', DfsKids h d accept S u pre pst S' ->
    forall e, good_edge h d accept e -> In (esrc e) pre ->
      In (edst e) S \/ esrc e = edst e \/ before (edst e) (esrc e) pst \/
      Reach h d accept (edst e) (esrc e).
  Proof.
    induction 1 as [S u Hd|S u e0 pre1 pst1 S1 pre2 pst2 S2 Hg0 Hs0 Hn0 H1 IH1 H2 IH2];
      intros e Hg Ha; [destruct Ha|].
    pose proof (dk_vs H1) as Hvs1. pose proof (dk_perm H1) as Hp1. pose proof (dk_perm H2) as Hp2.
    destruct Ha as [Ha|Ha]; [|apply in_app_or in Ha; destruct Ha as [Ha|Ha]].
    - (* the edge leaves the child itself *)
      assert (Hb : In (edst e) S1) by (apply (dk_closed H1 Hg); left; auto).
      rewrite Hvs1 in Hb. apply in_app_or in Hb. destruct Hb as [Hb|[Hb|Hb]]; auto.
      + right. right. left. rewrite <- Ha. apply before_mid_l.
        apply (Permutation_in _ Hp1). now apply in_rev.
      + right. left. congruence.
    - (* the edge leaves a node of the child's subtree *)
      destruct (IH1 e Hg Ha) as [[Hb|Hb]|[Hb|[Hb|Hb]]]; auto.
      + right. right. right. rewrite <- Hb. apply (dk_reach H1 _ Ha).
      + right. right. left. now apply before_app_l.
    - (* the edge leaves a node discovered later *)
      destruct (IH2 e Hg Ha) as [Hb|[Hb|[Hb|Hb]]]; auto.
      + assert (Hap : In (esrc e) pst2) by apply (Permutation_in _ Hp2 Ha).
        rewrite Hvs1 in Hb. apply in_app_or in Hb. destruct Hb as [Hb|[Hb|Hb]]; auto.
        * right. right. left. apply before_split; auto.
          apply (Permutation_in _ Hp1). now apply in_rev.
        * right. right. left. rewrite <- Hb. now apply before_mid_r.
      + right. right. left. apply before_app_r.
        change (before (edst e) (esrc e) ([edst e0] ++ pst2)). now apply before_app_r.
  Qed.

  (* a whole run: postorder pst ++ [root] *)
  Theorem post_edge_order_whole : forall root pre pst S', DfsKids h d accept [root] root pre pst S' ->
    forall e, good_edge h d accept e -> In (esrc e) (root :: pre) ->
      esrc e = edst e \/ before (edst e) (esrc e) (pst ++ [root]) \/
      Reach h d accept (edst e) (esrc e).
  Proof.
    intros root pre pst S' HD e Hg [Ha|Ha].
    - assert (Hb : In (edst e) S') by (apply (dk_closed HD Hg); left; auto).
      rewrite (dk_vs HD) in Hb. apply in_app_or in Hb. destruct Hb as [Hb|[Hb|[]]].
      + right. left. rewrite <- Ha. apply before_mid_l.
        apply (Permutation_in _ (dk_perm HD)). now apply in_rev.
      + left. congruence.
    - destruct (post_edge_order HD Hg Ha) as [[Hb|[]]|[Hb|[Hb|Hb]]]; auto.
      + right. right. rewrite <- Hb. apply (dk_reach HD _ Ha).
      + right. left. now apply before_app_l.
  Qed.
End PostOrder.

Print Assumptions order_is_dfs_run.
Print Assumptions order_nodes_spec.
Print Assumptions order_edges_tree.
Print Assumptions descend_foreach_once.
Print Assumptions post_edge_order.
Print Assumptions post_edge_order_whole.
