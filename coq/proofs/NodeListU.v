(* NodeListU.v — pure list lemmas used by NodeU.v (undirected edge operations) *)
From Gdsl.Model Require Import Base.
From Gdsl.Proofs Require Import NodeLemmas.
From Coq Require Import Lia.

Set Implicit Arguments.

Section ListU.
  Variable E : Type.
  Implicit Types l : list (nat * E).

  (* id-based predicate on first components *)
  Definition ideq (v : nat) : nat -> bool := fun w => Nat.eqb w v.
  (* "not an entry towards u" *)
  Definition nu (u : nat) : nat * E -> bool := fun p => negb (Nat.eqb (fst p) u).

  Lemma remove_first_p_ext (p q : nat -> bool) l :
    (forall x, In x l -> p (fst x) = q (fst x)) ->
    remove_first_p p l = remove_first_p q l.
  Proof.
    induction l as [|x r IH]; intros H; [reflexivity|].
    cbn [remove_first_p]. rewrite (H x (or_introl eq_refl)).
    rewrite IH; [reflexivity|]. intros y Hy. apply H. now right.
  Qed.

  Lemma find_first_p_ext (p q : nat -> bool) l :
    (forall x, In x l -> p (fst x) = q (fst x)) ->
    find_first_p p l = find_first_p q l.
  Proof.
    induction l as [|x r IH]; intros H; [reflexivity|].
    cbn [find_first_p]. rewrite (H x (or_introl eq_refl)).
    rewrite IH; [reflexivity|]. intros y Hy. apply H. now right.
  Qed.

  Lemma to_cons v (x : nat * E) l :
    to_ v (x :: l) = if Nat.eqb (fst x) v then snd x :: to_ v l else to_ v l.
  Proof. unfold to_. cbn [filter]. destruct (Nat.eqb (fst x) v); reflexivity. Qed.

  Lemma to_nil_iff v l : to_ v l = [] <-> (forall x, In x l -> fst x <> v).
  Proof.
    induction l as [|x r IH].
    - split; [intros _ y []|reflexivity].
    - rewrite to_cons. destruct (Nat.eqb_spec (fst x) v) as [Heq|Hne].
      + split; [discriminate|]. intros H. exfalso. apply (H x); [now left|exact Heq].
      + rewrite IH. split.
        * intros H y [<-|Hy]; [exact Hne|now apply H].
        * intros H y Hy. apply H. now right.
  Qed.

  Lemma remove_first_some v l e l' :
    remove_first_p (ideq v) l = Some (e, l') ->
    exists l1 l2, l = l1 ++ (v, e) :: l2 /\ l' = l1 ++ l2 /\ (forall x, In x l1 -> fst x <> v).
  Proof.
    revert l'. induction l as [|x r IH]; intros l' H; [discriminate|].
    cbn [remove_first_p] in H. unfold ideq at 1 in H.
    destruct (Nat.eqb_spec (fst x) v) as [Heq|Hne].
    - inversion H; subst. exists [], l'. destruct x as [a b]; cbn in *.
      split; [reflexivity|]. split; [reflexivity|]. intros y [].
    - destruct (remove_first_p (ideq v) r) as [[b r']|] eqn:Hr; [|discriminate].
      inversion H; subst. destruct (IH r' eq_refl) as (l1 & l2 & H1 & H2 & H3).
      exists (x :: l1), l2. subst. split; [reflexivity|]. split; [reflexivity|].
      intros y [<-|Hy]; [exact Hne|now apply H3].
  Qed.

  Lemma remove_first_none v l :
    remove_first_p (ideq v) l = None <-> to_ v l = [].
  Proof.
    induction l as [|x r IH]; [split; reflexivity|].
    cbn [remove_first_p]. rewrite to_cons. unfold ideq at 1.
    destruct (Nat.eqb (fst x) v).
    - split; discriminate.
    - destruct (remove_first_p (ideq v) r) as [[b r']|].
      + split; [discriminate|]. intros H. apply IH in H. discriminate.
      + split; [intros _; now apply IH|reflexivity].
  Qed.

  Lemma remove_first_split v l1 e l2 :
    (forall x, In x l1 -> fst x <> v) ->
    remove_first_p (ideq v) (l1 ++ (v, e) :: l2) = Some (e, l1 ++ l2).
  Proof.
    intros H. induction l1 as [|x r IH]; cbn [app remove_first_p].
    - unfold ideq. cbn [fst snd]. now rewrite Nat.eqb_refl.
    - unfold ideq at 1. destruct (Nat.eqb_spec (fst x) v) as [Heq|Hne].
      + exfalso. apply (H x); [now left|exact Heq].
      + rewrite IH; [reflexivity|]. intros y Hy. apply H. now right.
  Qed.

  (* views of a list after removing the first entry towards v *)
  Lemma to_split_same v l1 (e : E) l2 :
    (forall x, In x l1 -> fst x <> v) ->
    to_ v (l1 ++ (v, e) :: l2) = e :: to_ v (l1 ++ l2).
  Proof.
    intros H. rewrite !to_app. apply to_nil_iff in H. rewrite H.
    rewrite to_cons. cbn [fst snd]. now rewrite Nat.eqb_refl.
  Qed.

  Lemma to_split_other v w l1 (e : E) l2 :
    w <> v -> to_ w (l1 ++ (v, e) :: l2) = to_ w (l1 ++ l2).
  Proof.
    intros H. rewrite !to_app, to_cons. cbn [fst].
    destruct (Nat.eqb_spec v w); [congruence|reflexivity].
  Qed.

  Lemma to_head_remove v l e t :
    to_ v l = e :: t ->
    exists l1 l2, l = l1 ++ (v, e) :: l2 /\ (forall x, In x l1 -> fst x <> v) /\ to_ v (l1 ++ l2) = t.
  Proof.
    intros H. destruct (remove_first_p (ideq v) l) as [[e' l']|] eqn:Hr.
    - apply remove_first_some in Hr. destruct Hr as (l1 & l2 & H1 & H2 & H3).
      subst l. rewrite to_split_same in H by exact H3. inversion H; subst.
      exists l1, l2. auto.
    - apply remove_first_none in Hr. congruence.
  Qed.

  (* filter away the entries towards u *)
  Lemma filter_nu_split u l1 (e : E) l2 :
    filter (nu u) (l1 ++ (u, e) :: l2) = filter (nu u) (l1 ++ l2).
  Proof.
    rewrite !filter_app. cbn [filter]. unfold nu at 2. cbn [fst]. now rewrite Nat.eqb_refl.
  Qed.

  Lemma filter_nu_id u l : to_ u l = [] -> filter (nu u) l = l.
  Proof.
    induction l as [|x r IH]; [reflexivity|].
    rewrite to_cons. cbn [filter]. unfold nu at 1.
    destruct (Nat.eqb (fst x) u); [discriminate|]. intros H. cbn [negb]. now rewrite IH.
  Qed.

  Lemma to_filter_nu u b l :
    to_ b (filter (nu u) l) = if Nat.eqb b u then [] else to_ b l.
  Proof.
    induction l as [|x r IH].
    - cbn. now destruct (Nat.eqb b u).
    - cbn [filter]. unfold nu at 1. rewrite (to_cons b x r).
      destruct (Nat.eqb_spec (fst x) u) as [Heq|Hne]; cbn [negb].
      + rewrite IH. destruct (Nat.eqb_spec b u) as [Hb|Hb]; [reflexivity|].
        destruct (Nat.eqb_spec (fst x) b); [congruence|reflexivity].
      + rewrite to_cons, IH. destruct (Nat.eqb_spec b u) as [Hb|Hb]; [|reflexivity].
        destruct (Nat.eqb_spec (fst x) b); [congruence|reflexivity].
  Qed.

  Lemma filter_nu_incl u l x : In x (filter (nu u) l) -> In x l.
  Proof. intros H. apply filter_In in H. tauto. Qed.

  (* find_first *)
  Lemma find_first_some v l x : find_first_p (ideq v) l = Some x -> fst x = v /\ In x l.
  Proof.
    induction l as [|y r IH]; [discriminate|]. cbn [find_first_p]. unfold ideq at 1.
    destruct (Nat.eqb_spec (fst y) v) as [Heq|Hne].
    - intros H. inversion H; subst. split; [reflexivity|now left].
    - intros H. destruct (IH H). split; [assumption|now right].
  Qed.

  Lemma find_first_none v l : find_first_p (ideq v) l = None <-> to_ v l = [].
  Proof.
    induction l as [|y r IH]; [split; reflexivity|].
    cbn [find_first_p]. rewrite to_cons. unfold ideq at 1.
    destruct (Nat.eqb (fst y) v); [split; discriminate|exact IH].
  Qed.

  Lemma to_nonnil_iff v l : to_ v l <> [] <-> exists e, In (v, e) l.
  Proof.
    split.
    - intros H. destruct (to_ v l) as [|e t] eqn:Ht; [congruence|].
      apply to_head_remove in Ht. destruct Ht as (l1 & l2 & -> & _ & _).
      exists e. apply in_or_app. right. now left.
    - intros [e He] H. rewrite to_nil_iff in H. apply (H (v, e) He). reflexivity.
  Qed.

  (* positions *)
  Lemma skipn_nth (A : Type) (l : list A) n x :
    nth_error l n = Some x -> skipn n l = x :: skipn (S n) l.
  Proof.
    revert l. induction n as [|n IH]; intros [|y r] H; try discriminate.
    - cbn in H. inversion H. reflexivity.
    - cbn [nth_error] in H. cbn [skipn]. rewrite (IH r H). reflexivity.
  Qed.

  Lemma incl_split_remove l1 (y : nat * E) l2 x : In x (l1 ++ l2) -> In x (l1 ++ y :: l2).
  Proof.
    intros H. apply in_app_or in H. apply in_or_app. destruct H; [now left|right; now right].
  Qed.

  Lemma find_first_p_some (p : nat -> bool) l x :
    find_first_p p l = Some x -> p (fst x) = true /\ In x l.
  Proof.
    induction l as [|y r IH]; [discriminate|]. cbn [find_first_p].
    destruct (p (fst y)) eqn:Hp.
    - intros H. inversion H; subst. split; [assumption|now left].
    - intros H. destruct (IH H). split; [assumption|now right].
  Qed.

  Lemma find_first_app (p : nat -> bool) l1 l2 :
    find_first_p p (l1 ++ l2) =
    match find_first_p p l1 with Some x => Some x | None => find_first_p p l2 end.
  Proof.
    induction l1 as [|y r IH]; [reflexivity|]. cbn [app find_first_p].
    destruct (p (fst y)); [reflexivity|exact IH].
  Qed.

  Lemma filter_len_le (A : Type) (f : A -> bool) (l : list A) : length (filter f l) <= length l.
  Proof. induction l as [|y r IH]; cbn; [lia|]. destruct (f y); cbn; lia. Qed.
End ListU.
