(* Worklist.v — correctness of the worklist traversal machine wl_scan / wl_loop
   (bfs.rs, pfs.rs) for pure callbacks. *)
From Gdsl.Model Require Import Base NodeOps Search Callback Spec.
From Coq Require Import Lia Permutation.

Set Implicit Arguments.

(* ------------------------------------------------------------------ *)
(* list helpers *)
Lemma snoc_split {A} (t1 : list A) e' t2 tree e :
  t1 ++ e' :: t2 = tree ++ [e] ->
  (t2 = [] /\ t1 = tree /\ e' = e) \/ exists t2', t2 = t2' ++ [e] /\ tree = t1 ++ e' :: t2'.
Proof.
  intros H. induction t2 as [|x t2' _] using rev_ind.
  - left. apply app_inj_tail in H. destruct H as [H1 H2]. auto.
  - right. exists t2'.
    change (t1 ++ e' :: t2' ++ [x]) with (t1 ++ (e' :: t2') ++ [x]) in H.
    rewrite app_assoc in H. apply app_inj_tail in H. destruct H as [H1 H2]. subst. auto.
Qed.

Lemma NoDup_app_snoc {A} (l : list A) x : NoDup l -> ~ In x l -> NoDup (l ++ [x]).
Proof.
  intros Hn Hx. eapply Permutation_NoDup; [apply Permutation_cons_append|].
  constructor; assumption.
Qed.

Lemma NoDup_app_iff {A} (l1 l2 : list A) :
  NoDup (l1 ++ l2) <-> NoDup l1 /\ NoDup l2 /\ (forall x, In x l1 -> ~ In x l2).
Proof.
  induction l1 as [|a l1 IH]; cbn [app].
  - split; [intros H; repeat split; [constructor|exact H|intros x []]|tauto].
  - split.
    + intros H. inversion H as [|? ? Hni Hnd]; subst. apply IH in Hnd.
      destruct Hnd as [H1 [H2 H3]]. rewrite in_app_iff in Hni. repeat split.
      * constructor; tauto.
      * exact H2.
      * intros x [->|Hx]; [tauto|now apply H3].
    + intros [H1 [H2 H3]]. inversion H1 as [|? ? Hni Hnd]; subst. constructor.
      * rewrite in_app_iff. intros [Hx|Hx]; [tauto|]. eapply H3; [left; reflexivity|exact Hx].
      * apply IH. repeat split; [exact Hnd|exact H2|]. intros x Hx. apply H3. now right.
Qed.

Lemma fifo_qspec : QSpec fifo_push fifo_pop (fun q : list nat => q).
Proof.
  constructor.
  - intros q x. unfold fifo_push. apply Permutation_sym, Permutation_cons_append.
  - intros q H. destruct q; [reflexivity|discriminate].
  - intros q x q' H. destruct q; [discriminate|]. inversion H; subst. apply Permutation_refl.
Qed.

(* ------------------------------------------------------------------ *)
Section Facts.
  Variables K V E : Type.
  Variable keqb : K -> K -> bool.
  Hypothesis Hk : KeqbSpec keqb.
  Variable h : heap K V E.
  Hypothesis Hwf : Wf h.
  Hypothesis Hinj : KeysInj h.
  Variable d : dir.

  Lemma keyof_valid v : v < size h -> exists k, keyof h v = Some k.
  Proof.
    intros Hv. unfold keyof, size in *.
    destruct (nth_error (nodes h) v) eqn:Hn.
    - eexists; reflexivity.
    - apply nth_error_None in Hn. lia.
  Qed.

  Lemma keyof_some_valid v k : keyof h v = Some k -> v < size h.
  Proof.
    unfold keyof, size. intros H. apply nth_error_Some.
    destruct (nth_error (nodes h) v); [discriminate|discriminate].
  Qed.

  Lemma keqb_refl k : keqb k k = true.
  Proof. apply Hk. reflexivity. Qed.

  Lemma in_vis_nil v : v < size h -> in_vis keqb h [] v = false.
  Proof. intros Hv. unfold in_vis. destruct (keyof_valid Hv) as [k ->]. reflexivity. Qed.

  Lemma in_vis_mark vis v w : v < size h -> w < size h ->
    (in_vis keqb h (mark h vis v) w = true <-> w = v \/ in_vis keqb h vis w = true).
  Proof.
    intros Hv Hw. unfold in_vis, mark.
    destruct (keyof_valid Hv) as [kv Hkv]. destruct (keyof_valid Hw) as [kw Hkw].
    rewrite Hkv, Hkw. cbn [memb].
    destruct (keqb kv kw) eqn:Hq.
    - apply Hk in Hq. subst kw. split; [|reflexivity].
      intros _. left. eapply Hinj; eauto.
    - split; [auto|]. intros [->|H]; [|exact H].
      rewrite Hkv in Hkw. inversion Hkw; subst. rewrite keqb_refl in Hq. discriminate.
  Qed.

  Lemma is_target_some t v : is_target keqb h (Some t) v = true <-> keyof h v = Some t.
  Proof.
    unfold is_target, has_key. destruct (keyof h v) as [k|].
    - split; intros H.
      + apply Hk in H. now subst.
      + inversion H; subst. apply keqb_refl.
    - split; discriminate.
  Qed.

  Lemma is_target_root root v : root < size h ->
    (is_target keqb h (keyof h root) v = true <-> v = root).
  Proof.
    intros Hr. destruct (keyof_valid Hr) as [k Hkr]. rewrite Hkr, is_target_some.
    split; intros H; [eapply Hinj; eauto | now subst].
  Qed.

  Lemma adj_at_nth u pos : adj_at h u pos = nth_error (outs h u ++ ins h u) pos.
  Proof.
    unfold adj_at. destruct (nth_error (outs h u) pos) eqn:Hn.
    - symmetry. rewrite nth_error_app1; [exact Hn|]. apply nth_error_Some. congruence.
    - apply nth_error_None in Hn. now rewrite nth_error_app2.
  Qed.

  Lemma edge_at_nth u pos :
    edge_at h d u pos = option_map (fun p => (u, fst p, snd p)) (nth_error (adj_of h d u) pos).
  Proof. unfold edge_at, adj_of. destruct d; try reflexivity. now rewrite adj_at_nth. Qed.

  Lemma adj_valid u x : In x (adj_of h d u) -> fst x < size h.
  Proof.
    destruct Hwf as [_ [Ho Hi]]. destruct x as [v e]. unfold adj_of. cbn [fst].
    destruct d; intros H.
    - eapply Ho; eauto.
    - eapply Hi; eauto.
    - apply in_app_or in H. destruct H; [eapply Ho|eapply Hi]; eauto.
  Qed.

  Lemma adj_src_valid u x : In x (adj_of h d u) -> u < size h.
  Proof.
    destruct Hwf as [Hz _]. intros H.
    destruct (Nat.lt_ge_cases u (size h)) as [Hlt|Hge]; [exact Hlt|].
    destruct (Hz u Hge) as [H1 H2]. unfold adj_of in H. rewrite H1, H2 in H.
    destruct d; destruct H.
  Qed.
End Facts.

(* ------------------------------------------------------------------ *)
(* The machine under a pure callback, and a Hoare-style rule for it *)
Section Machine.
  Variables K V E : Type.
  Variable keqb : K -> K -> bool.
  Hypothesis Hk : KeqbSpec keqb.
  Variable CB : Type.
  Variable cb : CB -> heap K V E -> edge E -> CB * heap K V E * bool.
  Variable accept : edge E -> bool.
  Variable h : heap K V E.
  Hypothesis Hwf : Wf h.
  Hypothesis Hinj : KeysInj h.
  Hypothesis Hpure : PureCb h cb accept.
  Variable d : dir.
  Variable tgt : option K.
  Variable Q : Type.
  Variable qpush : Q -> nat -> Q.
  Variable qpop : Q -> option (nat * Q).

  Notation sst := (sst K V E CB).
  Notation SCAN := (wl_scan keqb cb qpush d tgt).
  Notation LOOP := (wl_loop keqb cb qpush qpop d tgt).

  Definition mk_e (u : nat) (x : nat * E) : edge E := (u, fst x, snd x).
  Definition cb_next (st : sst) (e : edge E) : CB := fst (fst (cb (s_cb st) h e)).
  Definition st_skip (st : sst) (e : edge E) : sst :=
    mkS h (cb_next st e) (s_vis st) (s_tree st).
  Definition st_disc (st : sst) (e : edge E) : sst :=
    mkS h (cb_next st e) (mark h (s_vis st) (edst e)) (s_tree st ++ [e]).
  Definition fresh (st : sst) (e : edge E) : bool :=
    accept e && negb (in_vis keqb h (s_vis st) (edst e)).

  Lemma call_cb_pure st e : s_heap st = h ->
    call_cb cb st e = (st_skip st e, accept e).
  Proof.
    intros Hh. unfold call_cb, st_skip, cb_next. rewrite Hh.
    destruct (Hpure (s_cb st) e) as [H1 H2].
    destruct (cb (s_cb st) h e) as [[c1 h1] ok]. cbn in *. subst. reflexivity.
  Qed.

  Lemma wl_scan_S f st q u pos : s_heap st = h ->
    SCAN (S f) st q u pos =
    match nth_error (adj_of h d u) pos with
    | None => (st, q, Exhausted)
    | Some x =>
        let e := mk_e u x in
        if fresh st e then
          if is_target keqb h tgt (edst e) then (st_disc st e, q, Found (edst e))
          else SCAN f (st_disc st e) (qpush q (edst e)) u (S pos)
        else SCAN f (st_skip st e) q u (S pos)
    end.
  Proof.
    intros Hh. cbn [wl_scan]. rewrite Hh, edge_at_nth.
    destruct (nth_error (adj_of h d u) pos) as [x|]; cbn [option_map]; [|reflexivity].
    fold (mk_e u x). rewrite call_cb_pure by exact Hh. cbv zeta.
    unfold fresh. cbn [s_heap s_vis st_skip].
    destruct (accept (mk_e u x) && negb (in_vis keqb h (s_vis st) (edst (mk_e u x)))); reflexivity.
  Qed.

  Section Rule.
    Variable PS : nat -> nat -> sst -> Q -> nat -> nat -> Prop.
    Variable PL : nat -> sst -> Q -> Prop.
    Variable PF : sst -> nat -> Prop.
    Variable PE : sst -> Prop.
    Variable PO : Prop.
    Hypothesis PS_heap : forall lf sf st q u pos, PS lf sf st q u pos -> s_heap st = h.
    Hypothesis PL_heap : forall f st q, PL f st q -> s_heap st = h.
    Hypothesis H_skip : forall lf sf st q u pos x,
      PS lf (S sf) st q u pos -> nth_error (adj_of h d u) pos = Some x ->
      fresh st (mk_e u x) = false -> PS lf sf (st_skip st (mk_e u x)) q u (S pos).
    Hypothesis H_disc : forall lf sf st q u pos x,
      PS lf (S sf) st q u pos -> nth_error (adj_of h d u) pos = Some x ->
      fresh st (mk_e u x) = true -> is_target keqb h tgt (fst x) = false ->
      PS lf sf (st_disc st (mk_e u x)) (qpush q (fst x)) u (S pos).
    Hypothesis H_found : forall lf sf st q u pos x,
      PS lf (S sf) st q u pos -> nth_error (adj_of h d u) pos = Some x ->
      fresh st (mk_e u x) = true -> is_target keqb h tgt (fst x) = true ->
      PF (st_disc st (mk_e u x)) (fst x).
    Hypothesis H_end : forall lf sf st q u pos,
      PS lf (S sf) st q u pos -> nth_error (adj_of h d u) pos = None -> PL lf st q.
    Hypothesis H_sfuel : forall lf st q u pos, PS lf 0 st q u pos -> PO.
    Hypothesis H_pop : forall f st q u q',
      PL (S f) st q -> qpop q = Some (u, q') -> PS f (S f) st q' u 0.
    Hypothesis H_none : forall f st q, PL (S f) st q -> qpop q = None -> PE st.
    Hypothesis H_lfuel : forall st q, PL 0 st q -> PO.

    Lemma scan_rule : forall sf lf st q u pos st' q' r,
      PS lf sf st q u pos -> SCAN sf st q u pos = (st', q', r) ->
      match r with Found v => PF st' v | Exhausted => PL lf st' q' | OutOfFuel => PO end.
    Proof.
      induction sf as [|sf IH]; intros lf st q u pos st' q' r HP Hrun.
      - cbn in Hrun. inversion Hrun; subst. eapply H_sfuel; eauto.
      - rewrite wl_scan_S in Hrun by (eapply PS_heap; eauto).
        destruct (nth_error (adj_of h d u) pos) as [x|] eqn:Hn.
        + cbv zeta in Hrun. destruct (fresh st (mk_e u x)) eqn:Hf.
          * change (edst (mk_e u x)) with (fst x) in Hrun.
            destruct (is_target keqb h tgt (fst x)) eqn:Ht.
            -- inversion Hrun; subst. eapply H_found; eauto.
            -- eapply IH; [|exact Hrun]. eapply H_disc; eauto.
          * eapply IH; [|exact Hrun]. eapply H_skip; eauto.
        + inversion Hrun; subst. eapply H_end; eauto.
    Qed.

    Lemma loop_rule : forall f st q st' r,
      PL f st q -> LOOP f st q = (st', r) ->
      match r with Found v => PF st' v | Exhausted => PE st' | OutOfFuel => PO end.
    Proof.
      induction f as [|f IH]; intros st q st' r HP Hrun.
      - cbn in Hrun. inversion Hrun; subst. eapply H_lfuel; eauto.
      - cbn [wl_loop] in Hrun. destruct (qpop q) as [[u q1]|] eqn:Hq.
        + destruct (SCAN (S f) st q1 u 0) as [[st1 q2] r1] eqn:Hs.
          pose proof Hs as Hr. eapply scan_rule in Hr; [|eapply H_pop; eauto].
          destruct r1.
          * inversion Hrun; subst. exact Hr.
          * eapply IH; eauto.
          * inversion Hrun; subst. exact Hr.
        + inversion Hrun; subst. eapply H_none; eauto.
    Qed.
  End Rule.

  (* ---------------- the generic invariant ---------------- *)
  Variable cont : Q -> list nat.
  Hypothesis HQ : QSpec qpush qpop cont.
  Variable cyc : bool.
  Variable root : nat.
  Hypothesis Hroot : root < size h.
  Hypothesis Htgt : cyc = true -> tgt = keyof h root.

  Notation edstE := (@edst E).
  Notation tok := (TreeOK h d accept root).

  Definition visl (tree : list (edge E)) : list nat :=
    if cyc then map edstE tree else root :: map edstE tree.
  Definition Seen (tree : list (edge E)) (v : nat) : Prop := v = root \/ In v (map edstE tree).
  Definition WClosed (tree : list (edge E)) (u : nat) : Prop :=
    forall x, In x (adj_of h d u) -> accept (mk_e u x) = true -> In (fst x) (visl tree).
  Definition WClosedTo (tree : list (edge E)) (u n : nat) : Prop :=
    forall i x, i < n -> nth_error (adj_of h d u) i = Some x -> accept (mk_e u x) = true ->
                In (fst x) (visl tree).

  Lemma visl_snoc tree e w : In w (visl (tree ++ [e])) <-> In w (visl tree) \/ w = edst e.
  Proof.
    unfold visl. destruct cyc; rewrite map_app; cbn [map In]; rewrite in_app_iff; cbn [In];
      intuition congruence.
  Qed.

  Lemma visl_seen tree v : In v (visl tree) -> Seen tree v.
  Proof. clear Htgt. unfold visl, Seen. destruct cyc; cbn [In]; intuition. Qed.

  Lemma seen_snoc tree e w : Seen (tree ++ [e]) w <-> Seen tree w \/ w = edst e.
  Proof.
    unfold Seen. rewrite map_app, in_app_iff. cbn [map In]. intuition congruence.
  Qed.

  Lemma closed_mono tree e u : WClosed tree u -> WClosed (tree ++ [e]) u.
  Proof. intros H x Hx Ha. apply visl_snoc. left. now apply H. Qed.

  Lemma closedto_mono tree e u n : WClosedTo tree u n -> WClosedTo (tree ++ [e]) u n.
  Proof. intros H i x Hi Hx Ha. apply visl_snoc. left. eapply H; eauto. Qed.

  Lemma closedto_all tree u n : WClosedTo tree u n -> nth_error (adj_of h d u) n = None ->
    WClosed tree u.
  Proof.
    intros H Hn x Hx Ha. apply In_nth_error in Hx. destruct Hx as [i Hi].
    eapply H; eauto. apply nth_error_None in Hn.
    assert (i < length (adj_of h d u)) by (apply nth_error_Some; congruence). lia.
  Qed.

  Lemma good_mk_e u x : In x (adj_of h d u) -> accept (mk_e u x) = true ->
    good_edge h d accept (mk_e u x).
  Proof.
    intros Hx Ha. split; [|exact Ha]. unfold is_edge, mk_e, edst, esrc, eval. cbn [fst snd].
    destruct x; exact Hx.
  Qed.

  Lemma tree_valid tree v : Forall (good_edge h d accept) tree -> In v (map edstE tree) -> v < size h.
  Proof.
    intros Hf Hv. apply in_map_iff in Hv. destruct Hv as [e [<- He]].
    rewrite Forall_forall in Hf. destruct (Hf e He) as [Hi _]. unfold is_edge in Hi.
    apply (adj_valid Hwf) in Hi. exact Hi.
  Qed.

  Lemma tok_nil : tok [].
  Proof.
    split; [constructor|split; [constructor|]].
    intros t1 e t2 H. destruct t1; discriminate.
  Qed.

  Lemma tok_snoc tree e : tok tree -> good_edge h d accept e -> ~ In (edst e) (map edstE tree) ->
    Seen tree (esrc e) -> tok (tree ++ [e]).
  Proof.
    intros [Hg [Hn Hs]] He Hni Hsrc. split; [|split].
    - apply Forall_app. split; [exact Hg|]. constructor; [exact He|constructor].
    - rewrite map_app. cbn [map]. apply NoDup_app_snoc; assumption.
    - intros t1 e' t2 Heq. symmetry in Heq. apply snoc_split in Heq.
      destruct Heq as [[-> [-> ->]]|[t2' [-> ->]]].
      + exact Hsrc.
      + eapply Hs. reflexivity.
  Qed.

  Lemma tok_prefix t1 t2 : tok (t1 ++ t2) -> tok t1.
  Proof.
    intros [Hg [Hn Hs]]. split; [|split].
    - apply Forall_app in Hg. tauto.
    - rewrite map_app in Hn. apply NoDup_app_iff in Hn. tauto.
    - intros a e b ->. eapply (Hs a e (b ++ t2)). rewrite <- app_assoc. reflexivity.
  Qed.

  Record CoreVT (vis : list K) (tree : list (edge E)) : Prop := mkCore {
    c_vis : forall v, v < size h -> (in_vis keqb h vis v = true <-> In v (visl tree));
    c_tree : tok tree;
    c_root : ~ In root (map edstE tree);
    c_nt : forall v, In v (map edstE tree) -> is_target keqb h tgt v = false
  }.

  (* R: nodes popped and fully scanned; P: pending nodes *)
  Record GP (R P : list nat) (vis : list K) (tree : list (edge E)) : Prop := mkGP {
    gp_core : CoreVT vis tree;
    gp_seen : forall v, Seen tree v <-> In v R \/ In v P;
    gp_nodup : NoDup (R ++ P);
    gp_closed : forall r, In r R -> WClosed tree r
  }.

  Lemma seen_valid vis tree v : CoreVT vis tree -> Seen tree v -> v < size h.
  Proof.
    intros Hc [->|Hv]; [exact Hroot|]. destruct (c_tree Hc) as [Hg _]. eapply tree_valid; eauto.
  Qed.

  Lemma GP_perm R P P' vis tree : GP R P vis tree -> Permutation P P' -> GP R P' vis tree.
  Proof.
    intros [Hc Hs Hn Hcl] Hp. split; [exact Hc| | |exact Hcl].
    - intros v. rewrite Hs. split; (intros [H|H]; [left; exact H|right]).
      + eapply Permutation_in; eauto.
      + eapply Permutation_in; [apply Permutation_sym|]; eauto.
    - eapply Permutation_NoDup; [|exact Hn]. apply Permutation_app_head. exact Hp.
  Qed.

  Lemma GP_init : GP [] [root] (if cyc then [] else mark h [] root) [].
  Proof.
    split.
    - split.
      + intros v Hv. unfold visl. destruct cyc; cbn [map In].
        * rewrite in_vis_nil by assumption. split; [discriminate|tauto].
        * rewrite (in_vis_mark Hk Hinj) by assumption. rewrite in_vis_nil by assumption.
          intuition congruence.
      + apply tok_nil.
      + intros [].
      + intros v [].
    - intros v. unfold Seen. cbn [map In]. intuition.
    - cbn [app]. constructor; [intros []|constructor].
    - intros r [].
  Qed.

  (* the adjacency entry under the cursor leads to an unvisited node *)
  Lemma unvisited vis tree u x : CoreVT vis tree -> In x (adj_of h d u) ->
    in_vis keqb h vis (fst x) = false -> ~ In (fst x) (visl tree).
  Proof.
    intros Hc Hx Hv Hin. apply (c_vis Hc) in Hin; [congruence|]. eapply adj_valid; eauto.
  Qed.

  Lemma unvisited_notroot vis tree u x : CoreVT vis tree -> In x (adj_of h d u) ->
    in_vis keqb h vis (fst x) = false -> is_target keqb h tgt (fst x) = false -> fst x <> root.
  Proof.
    intros Hc Hx Hv Ht Heq. destruct cyc eqn:Hcyc.
    - rewrite (Htgt eq_refl) in Ht. rewrite Heq in Ht.
      assert (is_target keqb h (keyof h root) root = true) by (apply (is_target_root Hk Hinj); auto).
      congruence.
    - eapply unvisited; eauto. unfold visl. rewrite Hcyc. left. auto.
  Qed.

  Lemma fresh_not_seen vis tree u x : CoreVT vis tree -> In x (adj_of h d u) ->
    in_vis keqb h vis (fst x) = false -> is_target keqb h tgt (fst x) = false ->
    ~ Seen tree (fst x).
  Proof.
    intros Hc Hx Hv Ht [H|H].
    - eapply unvisited_notroot; eauto.
    - eapply unvisited; eauto. unfold visl. destruct cyc; [exact H|right; exact H].
  Qed.

  Lemma GP_skip R P vis tree u n x : GP R P vis tree -> WClosedTo tree u n ->
    nth_error (adj_of h d u) n = Some x ->
    accept (mk_e u x) && negb (in_vis keqb h vis (fst x)) = false ->
    WClosedTo tree u (S n).
  Proof.
    intros HG Hcl Hn Hf i y Hi Hy Ha.
    destruct (Nat.eq_dec i n) as [->|Hne]; [|eapply Hcl; eauto; lia].
    rewrite Hn in Hy. inversion Hy; subst y. rewrite Ha in Hf. cbn [andb] in Hf.
    apply negb_false_iff in Hf. apply (c_vis (gp_core HG)); [|exact Hf].
    eapply adj_valid; eauto. eapply nth_error_In; eauto.
  Qed.

  Lemma Core_disc vis tree u x : CoreVT vis tree -> Seen tree u -> In x (adj_of h d u) ->
    accept (mk_e u x) = true -> in_vis keqb h vis (fst x) = false ->
    is_target keqb h tgt (fst x) = false ->
    CoreVT (mark h vis (fst x)) (tree ++ [mk_e u x]).
  Proof.
    intros Hc Hu Hx Ha Hv Ht.
    assert (Hval : fst x < size h) by (eapply adj_valid; eauto).
    assert (Hnv : ~ In (fst x) (visl tree)) by (eapply unvisited; eauto).
    assert (Hnr : fst x <> root) by (eapply unvisited_notroot; eauto).
    assert (Hnt : ~ In (fst x) (map edstE tree)).
    { intros Hin. apply Hnv. unfold visl. destruct cyc; [exact Hin|right; exact Hin]. }
    split.
    - intros v Hvv. rewrite (in_vis_mark Hk Hinj) by assumption. rewrite visl_snoc.
      rewrite (c_vis Hc) by assumption. change (edst (mk_e u x)) with (fst x). tauto.
    - apply tok_snoc; [exact (c_tree Hc)|apply good_mk_e; assumption|exact Hnt|exact Hu].
    - rewrite map_app, in_app_iff. cbn [map In]. change (edst (mk_e u x)) with (fst x).
      intros [H|[H|[]]]; [exact (c_root Hc H)|congruence].
    - intros v. rewrite map_app, in_app_iff. cbn [map In]. change (edst (mk_e u x)) with (fst x).
      intros [H|[<-|[]]]; [exact (c_nt Hc _ H)|exact Ht].
  Qed.

  Lemma GP_disc R P P' vis tree u x : GP R P vis tree -> In u P -> In x (adj_of h d u) ->
    accept (mk_e u x) = true -> in_vis keqb h vis (fst x) = false ->
    is_target keqb h tgt (fst x) = false -> Permutation P' (fst x :: P) ->
    GP R P' (mark h vis (fst x)) (tree ++ [mk_e u x]).
  Proof.
    intros HG Hu Hx Ha Hv Ht Hp. apply GP_perm with (P := fst x :: P); [|apply Permutation_sym, Hp].
    destruct HG as [Hc Hs Hn Hcl].
    assert (Hsu : Seen tree u) by (apply Hs; right; exact Hu).
    assert (Hnv : ~ In (fst x) (visl tree)) by (eapply unvisited; eauto).
    assert (Hnr : fst x <> root) by (eapply unvisited_notroot; eauto).
    assert (Hns : ~ Seen tree (fst x)).
    { intros [H|H]; [congruence|]. apply Hnv. unfold visl. destruct cyc; [exact H|right; exact H]. }
    split.
    - eapply Core_disc; eauto.
    - intros v. rewrite seen_snoc, Hs. change (edst (mk_e u x)) with (fst x). cbn [In].
      intuition congruence.
    - eapply Permutation_NoDup; [apply Permutation_middle|]. constructor; [|exact Hn].
      intros Hin. apply Hns. apply Hs. apply in_app_or in Hin. exact Hin.
    - intros r Hr. apply closed_mono. now apply Hcl.
  Qed.

  Lemma GP_end R u P vis tree : GP R (u :: P) vis tree -> WClosed tree u -> GP (R ++ [u]) P vis tree.
  Proof.
    intros [Hc Hs Hn Hcl] Hu. split; [exact Hc| | |].
    - intros v. rewrite Hs, in_app_iff. cbn [In]. intuition.
    - rewrite <- app_assoc. exact Hn.
    - intros r Hr. apply in_app_or in Hr. destruct Hr as [Hr|[<-|[]]]; [now apply Hcl|exact Hu].
  Qed.

  (* ---------------- what the invariant gives at the end ---------------- *)
  Lemma chain_snoc a p b (e : edge E) : chain a p b -> esrc e = b -> chain a (p ++ [e]) (edst e).
  Proof.
    intros Hc. induction Hc as [a|a e0 p b Hs Hc IH]; intros He; cbn [app].
    - constructor; [exact He|constructor].
    - constructor; [exact Hs|now apply IH].
  Qed.

  Lemma chain_snoc_inv p : forall a b (e : edge E), chain a (p ++ [e]) b ->
    chain a p (esrc e) /\ edst e = b.
  Proof.
    induction p as [|e0 p IH]; intros a b e Hc; cbn [app] in Hc.
    - inversion Hc as [|? ? ? ? Hs Hc']; subst. inversion Hc'; subst. split; [constructor|reflexivity].
    - inversion Hc as [|? ? ? ? Hs Hc']; subst. apply IH in Hc'. destruct Hc' as [H1 H2].
      split; [constructor; auto|exact H2].
  Qed.

  Lemma reach_snoc a (e : edge E) : Reach h d accept a (esrc e) -> good_edge h d accept e ->
    Reach h d accept a (edst e).
  Proof.
    intros [p [Hc Hf]] He. exists (p ++ [e]). split.
    - eapply chain_snoc; [exact Hc|reflexivity].
    - apply Forall_app. split; [exact Hf|constructor; [exact He|constructor]].
  Qed.

  Lemma tree_reach : forall tree, tok tree -> forall v, Seen tree v -> Reach h d accept root v.
  Proof.
    induction tree as [|e tree IH] using rev_ind; intros Ht v Hv.
    - destruct Hv as [->|[]]. exists []. split; constructor.
    - pose proof (tok_prefix _ _ Ht) as Ht'. apply seen_snoc in Hv. destruct Hv as [Hv| ->].
      + now apply IH.
      + destruct Ht as [Hg [_ Hs]]. apply reach_snoc.
        * apply IH; [exact Ht'|]. exact (Hs tree e [] eq_refl).
        * apply Forall_app in Hg. destruct Hg as [_ Hg]. now inversion Hg.
  Qed.

  Lemma closed_step R vis tree (e : edge E) : GP R [] vis tree -> Seen tree (esrc e) ->
    good_edge h d accept e -> In (edst e) (visl tree).
  Proof.
    intros HG Hs [Hi Ha]. apply (gp_seen HG) in Hs. destruct Hs as [Hr|[]].
    pose proof (gp_closed HG Hr) as Hc. specialize (Hc (edst e, eval e) Hi).
    unfold mk_e in Hc. cbn [fst snd] in Hc. apply Hc.
    destruct e as [[a b] c]. exact Ha.
  Qed.

  Lemma reach_seen R vis tree : GP R [] vis tree ->
    forall a p b, chain a p b -> Forall (good_edge h d accept) p -> Seen tree a -> Seen tree b.
  Proof.
    intros HG a p b Hc. induction Hc as [a|a e p b Hs Hc IH]; intros Hf Ha; [exact Ha|].
    inversion Hf as [|? ? He Hf']; subst. apply IH; [exact Hf'|].
    apply visl_seen. eapply closed_step; eauto.
  Qed.

  Lemma exhausted_reach R vis tree : GP R [] vis tree ->
    forall v, Reach h d accept root v <-> v = root \/ In v (map edstE tree).
  Proof.
    intros HG v. split.
    - intros [p [Hc Hf]]. eapply reach_seen; eauto. left; reflexivity.
    - intros Hs. eapply tree_reach; [exact (c_tree (gp_core HG))|exact Hs].
  Qed.

  Lemma exhausted_nocycle R vis tree : GP R [] vis tree -> cyc = true ->
    ~ ReachPlus h d accept root root.
  Proof.
    intros HG Hcyc [p [Hne [Hc Hf]]].
    destruct (exists_last Hne) as [p' [e ->]].
    apply chain_snoc_inv in Hc. destruct Hc as [Hc He].
    apply Forall_app in Hf. destruct Hf as [Hf Hfe]. inversion Hfe as [|? ? Hge _]; subst.
    assert (Hs : Seen tree (esrc e)) by (eapply reach_seen; eauto; left; reflexivity).
    pose proof (closed_step HG Hs Hge) as Hin. unfold visl in Hin. rewrite Hcyc, He in Hin.
    exact (c_root (gp_core HG) Hin).
  Qed.

  Lemma exhausted_notarget R vis tree t : GP R [] vis tree -> tgt = Some t ->
    keyof h root <> Some t -> forall v, keyof h v = Some t -> ~ Reach h d accept root v.
  Proof.
    intros HG Ht Hrt v Hv Hr. apply (exhausted_reach HG) in Hr. destruct Hr as [->|Hin]; [congruence|].
    pose proof (c_nt (gp_core HG) _ Hin) as Hnt. rewrite Ht in Hnt.
    apply (is_target_some Hk) in Hv. congruence.
  Qed.

  (* the state on Found *)
  Definition GF (st : sst) (v : nat) : Prop :=
    s_heap st = h /\ v < size h /\ is_target keqb h tgt v = true /\
    exists t w, s_tree st = t ++ [w] /\ edst w = v /\ tok (t ++ [w]) /\
                ~ In root (map edstE t) /\ ~ In v (visl t).

  Lemma GF_rootlast t w : ~ In root (map edstE t) -> RootLast root (t ++ [w]).
  Proof.
    intros Hn t1 e t2 Heq He. symmetry in Heq. apply snoc_split in Heq.
    destruct Heq as [[-> _]|[t2' [-> ->]]]; [reflexivity|].
    exfalso. apply Hn. rewrite map_app, in_app_iff. right. cbn [map In]. left. exact He.
  Qed.

  (* ---------------- the invariant on machine states ---------------- *)
  Definition GL (R : list nat) (st : sst) (q : Q) : Prop :=
    s_heap st = h /\ GP R (cont q) (s_vis st) (s_tree st).
  Definition GS (R : list nat) (st : sst) (q : Q) (u pos : nat) : Prop :=
    s_heap st = h /\ GP R (u :: cont q) (s_vis st) (s_tree st) /\ WClosedTo (s_tree st) u pos.
  Definition GE (R : list nat) (st : sst) : Prop :=
    s_heap st = h /\ GP R [] (s_vis st) (s_tree st).

  Lemma fresh_true st e : fresh st e = true ->
    accept e = true /\ in_vis keqb h (s_vis st) (edst e) = false.
  Proof.
    unfold fresh. intros H. apply andb_true_iff in H. destruct H as [H1 H2].
    apply negb_true_iff in H2. auto.
  Qed.

  Lemma GS_skip R st q u pos x : GS R st q u pos -> nth_error (adj_of h d u) pos = Some x ->
    fresh st (mk_e u x) = false -> GS R (st_skip st (mk_e u x)) q u (S pos).
  Proof.
    intros [Hh [HG Hc]] Hn Hf. unfold GS, st_skip. cbn [s_heap s_vis s_tree].
    split; [reflexivity|split; [exact HG|]]. eapply GP_skip; eauto.
  Qed.

  Lemma GS_disc R st q u pos x : GS R st q u pos -> nth_error (adj_of h d u) pos = Some x ->
    fresh st (mk_e u x) = true -> is_target keqb h tgt (fst x) = false ->
    GS R (st_disc st (mk_e u x)) (qpush q (fst x)) u (S pos).
  Proof.
    intros [Hh [HG Hc]] Hn Hf Ht. apply fresh_true in Hf. destruct Hf as [Ha Hv].
    change (edst (mk_e u x)) with (fst x) in Hv.
    pose proof (nth_error_In _ _ Hn) as Hx.
    unfold GS, st_disc. cbn [s_heap s_vis s_tree]. change (edst (mk_e u x)) with (fst x).
    split; [reflexivity|split].
    - eapply GP_disc; eauto.
      + left; reflexivity.
      + eapply perm_trans; [apply perm_skip, (qs_push HQ)|apply perm_swap].
    - intros i y Hi Hy Hay. apply visl_snoc.
      destruct (Nat.eq_dec i pos) as [->|Hne].
      + rewrite Hn in Hy. inversion Hy; subst y. right. reflexivity.
      + left. eapply Hc; eauto. lia.
  Qed.

  Lemma GS_found R st q u pos x : GS R st q u pos -> nth_error (adj_of h d u) pos = Some x ->
    fresh st (mk_e u x) = true -> is_target keqb h tgt (fst x) = true ->
    GF (st_disc st (mk_e u x)) (fst x).
  Proof.
    intros [Hh [HG Hc]] Hn Hf Ht. apply fresh_true in Hf. destruct Hf as [Ha Hv].
    change (edst (mk_e u x)) with (fst x) in Hv.
    pose proof (nth_error_In _ _ Hn) as Hx.
    pose proof (gp_core HG) as Hcore.
    assert (Hnv : ~ In (fst x) (visl (s_tree st))) by (eapply unvisited; eauto).
    unfold GF, st_disc. cbn [s_heap s_tree].
    split; [reflexivity|split; [eapply adj_valid; eauto|split; [exact Ht|]]].
    exists (s_tree st), (mk_e u x).
    split; [reflexivity|split; [reflexivity|split; [|split]]].
    - apply tok_snoc; [exact (c_tree Hcore)|now apply good_mk_e| |].
      + intros Hin. apply Hnv. unfold visl. destruct cyc; [exact Hin|right; exact Hin].
      + apply (gp_seen HG). right. left. reflexivity.
    - exact (c_root Hcore).
    - exact Hnv.
  Qed.

  Lemma GS_end R st q u pos : GS R st q u pos -> nth_error (adj_of h d u) pos = None ->
    GL (R ++ [u]) st q.
  Proof.
    intros [Hh [HG Hc]] Hn. split; [exact Hh|]. apply GP_end; [exact HG|].
    eapply closedto_all; eauto.
  Qed.

  Lemma GL_pop R st q u q' : GL R st q -> qpop q = Some (u, q') -> GS R st q' u 0.
  Proof.
    intros [Hh HG] Hq. split; [exact Hh|split].
    - eapply GP_perm; [exact HG|]. apply (qs_pop_some HQ). exact Hq.
    - intros i x Hi. lia.
  Qed.

  Lemma GL_none R st q : GL R st q -> qpop q = None -> GE R st.
  Proof.
    intros [Hh HG] Hq. split; [exact Hh|]. rewrite (qs_pop_none HQ _ Hq) in HG. exact HG.
  Qed.

  (* ---------------- derived rule: the invariant plus a client's own ---------------- *)
  Section Rule2.
    Variable XS : list nat -> nat -> nat -> sst -> Q -> nat -> nat -> Prop.
    Variable XL : list nat -> nat -> sst -> Q -> Prop.
    Variable XF : sst -> nat -> Prop.
    Variable XE : list nat -> sst -> Prop.
    Variable PO : Prop.
    Hypothesis O_skip : forall R lf sf st q u pos x,
      GS R st q u pos -> XS R lf (S sf) st q u pos -> nth_error (adj_of h d u) pos = Some x ->
      fresh st (mk_e u x) = false -> XS R lf sf (st_skip st (mk_e u x)) q u (S pos).
    Hypothesis O_disc : forall R lf sf st q u pos x,
      GS R st q u pos -> XS R lf (S sf) st q u pos -> nth_error (adj_of h d u) pos = Some x ->
      fresh st (mk_e u x) = true -> is_target keqb h tgt (fst x) = false ->
      XS R lf sf (st_disc st (mk_e u x)) (qpush q (fst x)) u (S pos).
    Hypothesis O_found : forall R lf sf st q u pos x,
      GS R st q u pos -> XS R lf (S sf) st q u pos -> nth_error (adj_of h d u) pos = Some x ->
      fresh st (mk_e u x) = true -> is_target keqb h tgt (fst x) = true ->
      XF (st_disc st (mk_e u x)) (fst x).
    Hypothesis O_end : forall R lf sf st q u pos,
      GS R st q u pos -> XS R lf (S sf) st q u pos -> nth_error (adj_of h d u) pos = None ->
      XL (R ++ [u]) lf st q.
    Hypothesis O_sfuel : forall R lf st q u pos, GS R st q u pos -> XS R lf 0 st q u pos -> PO.
    Hypothesis O_pop : forall R f st q u q',
      GL R st q -> XL R (S f) st q -> qpop q = Some (u, q') -> XS R f (S f) st q' u 0.
    Hypothesis O_none : forall R f st q, GL R st q -> XL R (S f) st q -> qpop q = None -> XE R st.
    Hypothesis O_lfuel : forall R st q, GL R st q -> XL R 0 st q -> PO.

    Theorem loop_rule2 : forall R f st q st' r,
      GL R st q -> XL R f st q -> LOOP f st q = (st', r) ->
      match r with
      | Found v => GF st' v /\ XF st' v
      | Exhausted => exists R', GE R' st' /\ XE R' st'
      | OutOfFuel => PO
      end.
    Proof.
      intros R f st q st' r HG HX Hrun.
      eapply (loop_rule
                (fun lf sf st q u pos => exists R, GS R st q u pos /\ XS R lf sf st q u pos)
                (fun f st q => exists R, GL R st q /\ XL R f st q)
                (fun st v => GF st v /\ XF st v)
                (fun st => exists R, GE R st /\ XE R st)) with (PO := PO) in Hrun.
      - exact Hrun.
      - intros lf sf st0 q0 u pos [R0 [[Hh _] _]]. exact Hh.
      - intros lf sf st0 q0 u pos x [R0 [H1 H2]] Hn Hf. exists R0. split.
        + eapply GS_skip; eauto.
        + eapply O_skip; eauto.
      - intros lf sf st0 q0 u pos x [R0 [H1 H2]] Hn Hf Ht. exists R0. split.
        + eapply GS_disc; eauto.
        + eapply O_disc; eauto.
      - intros lf sf st0 q0 u pos x [R0 [H1 H2]] Hn Hf Ht. split.
        + eapply GS_found; eauto.
        + eapply O_found; eauto.
      - intros lf sf st0 q0 u pos [R0 [H1 H2]] Hn. exists (R0 ++ [u]). split.
        + eapply GS_end; eauto.
        + eapply O_end; eauto.
      - intros lf st0 q0 u pos [R0 [H1 H2]]. eapply O_sfuel; eauto.
      - intros f0 st0 q0 u q1 [R0 [H1 H2]] Hq. exists R0. split.
        + eapply GL_pop; eauto.
        + eapply O_pop; eauto.
      - intros f0 st0 q0 [R0 [H1 H2]] Hq. exists R0. split.
        + eapply GL_none; eauto.
        + eapply O_none; eauto.
      - intros st0 q0 [R0 [H1 H2]]. eapply O_lfuel; eauto.
      - exists R. split; assumption.
    Qed.
  End Rule2.

  (* ---------------- instance 1: the invariant alone ---------------- *)
  Theorem loop_basic R f st q st' r :
    GL R st q -> LOOP f st q = (st', r) ->
    match r with
    | Found v => GF st' v
    | Exhausted => exists R', GE R' st'
    | OutOfFuel => True
    end.
  Proof.
    intros HG Hrun.
    pose proof (@loop_rule2 (fun _ _ _ _ _ _ _ => True) (fun _ _ _ _ => True)
                  (fun _ _ => True) (fun _ _ => True) True) as H.
    specialize (H ltac:(auto) ltac:(auto) ltac:(auto) ltac:(auto) ltac:(auto) ltac:(auto)
                  ltac:(auto) ltac:(auto) R f st q st' r HG I Hrun).
    destruct r; [tauto| |exact I]. destruct H as [R' [H _]]. exists R'. exact H.
  Qed.

  (* ---------------- instance 2: enough fuel ---------------- *)
  Lemma visl_length vis tree : CoreVT vis tree -> length (visl tree) <= size h.
  Proof.
    intros Hc. rewrite <- (seq_length (size h) 0). apply NoDup_incl_length.
    - destruct (c_tree Hc) as [_ [Hn _]]. unfold visl. destruct cyc; [exact Hn|].
      constructor; [exact (c_root Hc)|exact Hn].
    - intros v Hv. apply in_seq. split; [lia|]. cbn. eapply seen_valid; eauto. now apply visl_seen.
  Qed.

  Lemma visl_snoc_length tree e : length (visl (tree ++ [e])) = S (length (visl tree)).
  Proof. unfold visl. destruct cyc; cbn [length]; rewrite map_app, app_length; cbn; lia. Qed.

  Variable D : nat.
  Hypothesis HD : forall u, length (adj_of h d u) <= D.

  Definition FL (f : nat) (st : sst) (q : Q) : Prop :=
    size h + length (cont q) + D + 1 <= f + length (visl (s_tree st)).
  Definition FS (lf sf : nat) (st : sst) (q : Q) (u pos : nat) : Prop :=
    FL lf st q /\ length (adj_of h d u) + 1 <= sf + pos /\ pos <= length (adj_of h d u).

  Theorem loop_fuel R f st q st' r :
    GL R st q -> FL f st q -> LOOP f st q = (st', r) -> r <> OutOfFuel.
  Proof.
    intros HG HF Hrun.
    pose proof (@loop_rule2 (fun _ lf sf st q u pos => FS lf sf st q u pos)
                  (fun _ f st q => FL f st q)
                  (fun _ _ => True) (fun _ _ => True) False) as H.
    assert (Hlen : forall u pos x, nth_error (adj_of h d u) pos = Some x ->
                                   pos < length (adj_of h d u)).
    { intros u pos x Hn. apply nth_error_Some. congruence. }
    cut (match r with Found v => GF st' v /\ True
                 | Exhausted => exists R', GE R' st' /\ True | OutOfFuel => False end).
    { intros Hr ->. exact Hr. }
    eapply H; clear H; [..|exact HG|exact HF|exact Hrun].
    - intros R0 lf sf st0 q0 u pos x _ [H1 [H2 H3]] Hn _. apply Hlen in Hn.
      unfold FS, FL in *. cbn [st_skip s_tree]. lia.
    - intros R0 lf sf st0 q0 u pos x _ [H1 [H2 H3]] Hn _ _. apply Hlen in Hn.
      unfold FS, FL in *. cbn [st_disc s_tree]. rewrite visl_snoc_length.
      pose proof (Permutation_length (qs_push HQ q0 (fst x))) as Hp. cbn [length] in Hp. lia.
    - auto.
    - intros R0 lf sf st0 q0 u pos _ [H1 _] _. exact H1.
    - intros R0 lf st0 q0 u pos _ [_ [H2 H3]]. lia.
    - intros R0 f0 st0 q0 u q1 [_ HG0] H1 Hq.
      pose proof (Permutation_length (qs_pop_some HQ _ Hq)) as Hp. cbn [length] in Hp.
      pose proof (visl_length (gp_core HG0)) as Hv. pose proof (HD u) as Hu.
      unfold FS, FL in *. lia.
    - auto.
    - intros R0 st0 q0 [_ HG0] H1. pose proof (visl_length (gp_core HG0)) as Hv.
      unfold FL in H1. lia.
  Qed.
End Machine.

(* ------------------------------------------------------------------ *)
(* total degree bounds every adjacency list *)
Lemma fold_iota_bound (g : nat -> nat) : forall n s u, s <= u < s + n ->
  g u <= fold_right (fun u acc => g u + acc) 0 (iota s n).
Proof.
  induction n as [|n IH]; intros s u Hu; [lia|]. cbn [iota fold_right].
  destruct (Nat.eq_dec u s) as [->|Hne]; [lia|].
  specialize (IH (S s) u ltac:(lia)). lia.
Qed.

Require Import Gdsl.Proofs.Backtrack.

Section Main.
  Variables K V E : Type.
  Variable keqb : K -> K -> bool.
  Hypothesis Hk : KeqbSpec keqb.
  Variable CB : Type.
  Variable cb : CB -> heap K V E -> edge E -> CB * heap K V E * bool.
  Variable accept : edge E -> bool.
  Variable vleb : V -> V -> bool.
  (* the BinaryHeap transcription neither loses nor invents elements; proved by another worker *)
  Hypothesis Hheap : forall le : nat -> nat -> bool,
    QSpec (heap_push le) (heap_pop le) (fun q : list nat => q).
  Variable h : heap K V E.
  Hypothesis Hwf : Wf h.
  Hypothesis Hinj : KeysInj h.
  Hypothesis Hpure : PureCb h cb accept.
  Variable d : dir.
  Variable root : nat.
  Hypothesis Hroot : root < size h.
  Variable c0 : CB.

  Notation SP k t cyc fuel := (search_path keqb cb vleb k d fuel h c0 root t cyc).
  Notation SF k t fuel := (search_find keqb cb vleb k d fuel h c0 root t).
  Notation RUN k t cyc fuel := (run_search keqb cb vleb k d fuel h c0 root t cyc).
  Notation edstE := (@edst E).

  Definition tgt_of (t : option K) (cyc : bool) : option K := if cyc then keyof h root else t.
  Definition idq (q : list nat) : list nat := q.

  (* every worklist kind is wl_loop over a list-represented queue satisfying QSpec *)
  Lemma run_is_loop k fuel t cyc : k <> KDfs ->
    exists qpush qpop, QSpec qpush qpop idq /\
      RUN k t cyc fuel =
      wl_loop keqb cb qpush qpop d (tgt_of t cyc) fuel (init_st h c0 root (negb cyc)) [root].
  Proof.
    intros Hkd. destruct k; [|congruence| |].
    - exists fifo_push, fifo_pop. split; [apply fifo_qspec|reflexivity].
    - eexists _, _. split; [apply Hheap|reflexivity].
    - eexists _, _. split; [apply Hheap|reflexivity].
  Qed.

  Lemma tgt_of_cyc t cyc : cyc = true -> tgt_of t cyc = keyof h root.
  Proof. intros ->. reflexivity. Qed.

  Lemma init_GL t cyc :
    GL keqb accept h d (tgt_of t cyc) idq cyc root [] (init_st h c0 root (negb cyc)) [root].
  Proof.
    split; [reflexivity|]. unfold init_st, idq. cbn [s_vis s_tree].
    pose proof (GP_init Hk accept Hinj d Hroot (tgt_of_cyc t (cyc:=cyc))) as H.
    destruct cyc; exact H.
  Qed.

  Lemma run_inv k fuel t cyc st r : k <> KDfs -> RUN k t cyc fuel = (st, r) ->
    match r with
    | Found v => GF keqb accept h d (tgt_of t cyc) cyc root st v
    | Exhausted => exists R, GE keqb accept h d (tgt_of t cyc) cyc root R st
    | OutOfFuel => True
    end.
  Proof.
    intros Hkd Hrun. destruct (run_is_loop fuel t cyc Hkd) as [qpush [qpop [HQ Heq]]].
    rewrite Heq in Hrun.
    eapply (loop_basic Hk Hwf Hinj Hpure HQ Hroot (tgt_of_cyc t (cyc:=cyc))); [|exact Hrun].
    apply init_GL.
  Qed.

  Lemma found_path t cyc (st : sst K V E CB) v : GF keqb accept h d (tgt_of t cyc) cyc root st v ->
    exists tr w p p0, s_tree st = tr ++ [w] /\ edst w = v /\ ~ In root (map edstE tr) /\
      backtrack keqb (s_heap st) (s_tree st) = Some p /\ p = p0 ++ [w] /\
      IsPath h d accept root p v /\ p <> [] /\ NoDup (map edstE p) /\
      (forall e, In e p -> In e (tr ++ [w])) /\
      is_target keqb h (tgt_of t cyc) v = true /\ TreeOK h d accept root (tr ++ [w]).
  Proof.
    intros [Hh [Hv [Ht [tr [w [Htr [Hw [Htok [Hnr Hnv]]]]]]]]].
    destruct (@backtrack_correct K V E keqb Hk h d accept root (tr ++ [w]) tr w
                Hwf Hinj Hroot Htok (@GF_rootlast E root tr w Hnr) eq_refl)
      as [p [Hb [Hp [Hne [Hin [Hnd [p0 Hp0]]]]]]].
    exists tr, w, p, p0. rewrite Hh, Htr, Hw in *. tauto.
  Qed.

  Theorem wl_exhaustive : forall k fuel st, k <> KDfs -> SP k None false fuel = (st, RNone E) ->
    s_heap st = h /\ TreeOK h d accept root (s_tree st) /\ ~ In root (map (@edst E) (s_tree st)) /\
    (forall v, Reach h d accept root v <-> v = root \/ In v (map (@edst E) (s_tree st))).
  Proof.
    intros k fuel st Hkd H. unfold search_path in H.
    destruct (RUN k None false fuel) as [st1 r] eqn:Hrun.
    pose proof (run_inv _ _ _ Hkd Hrun) as Hi. destruct r.
    - destruct (backtrack keqb (s_heap st1) (s_tree st1)); discriminate.
    - inversion H; subst st1. destruct Hi as [R [Hh HG]].
      split; [exact Hh|]. split; [exact (c_tree (gp_core HG))|].
      split; [exact (c_root (gp_core HG))|]. eapply exhausted_reach; exact HG.
    - discriminate.
  Qed.

  Theorem wl_path_sound : forall k fuel t st p, k <> KDfs -> keyof h root <> Some t ->
    SP k (Some t) false fuel = (st, RPath p) ->
    exists v, keyof h v = Some t /\ IsPath h d accept root p v /\ p <> [] /\
              NoDup (map (@edst E) p) /\ ~ In root (map (@edst E) p).
  Proof.
    intros k fuel t st p Hkd Hrt H. unfold search_path in H.
    destruct (RUN k (Some t) false fuel) as [st1 r] eqn:Hrun.
    pose proof (run_inv _ _ _ Hkd Hrun) as Hi. destruct r; [|discriminate|discriminate].
    apply found_path in Hi.
    destruct Hi as [tr [w [p1 [p0 [Htr [Hw [Hnr [Hb [Hp0 [Hp [Hne [Hnd [Hin [Ht _]]]]]]]]]]]]]].
    rewrite Hb in H. assert (Hpp : p = p1) by (inversion H; reflexivity). subst p. clear H.
    cbn [tgt_of] in Ht. apply (is_target_some Hk) in Ht.
    exists v. split; [exact Ht|]. split; [exact Hp|]. split; [exact Hne|]. split; [exact Hnd|].
    intros Hr. apply in_map_iff in Hr. destruct Hr as [e [He Hep]].
    apply Hin, in_app_or in Hep. destruct Hep as [Hep|[<-|[]]].
    - apply Hnr. rewrite <- He. now apply in_map.
    - congruence.
  Qed.

  Theorem wl_path_complete : forall k fuel t st, k <> KDfs -> keyof h root <> Some t ->
    SP k (Some t) false fuel = (st, RNone E) ->
    forall v, keyof h v = Some t -> ~ Reach h d accept root v.
  Proof.
    intros k fuel t st Hkd Hrt H. unfold search_path in H.
    destruct (RUN k (Some t) false fuel) as [st1 r] eqn:Hrun.
    pose proof (run_inv _ _ _ Hkd Hrun) as Hi. destruct r.
    - destruct (backtrack keqb (s_heap st1) (s_tree st1)); discriminate.
    - destruct Hi as [R [Hh HG]]. eapply (exhausted_notarget Hk); [exact HG|reflexivity|exact Hrt].
    - discriminate.
  Qed.

  Theorem wl_no_panic : forall k fuel t cyc, k <> KDfs -> snd (SP k t cyc fuel) <> RPanic E.
  Proof.
    intros k fuel t cyc Hkd. unfold search_path.
    destruct (RUN k t cyc fuel) as [st1 r] eqn:Hrun.
    pose proof (run_inv _ _ _ Hkd Hrun) as Hi. destruct r; cbn [snd]; try discriminate.
    apply found_path in Hi.
    destruct Hi as [tr [w [p1 [p0 [_ [_ [_ [Hb _]]]]]]]]. rewrite Hb. cbn [snd]. discriminate.
  Qed.

  (* ---------------- termination ---------------- *)
  Definition tot_deg : nat :=
    fold_right (fun u acc => length (outs h u) + length (ins h u) + acc) 0 (iota 0 (size h)).

  Lemma adj_le_tot u : length (adj_of h d u) <= tot_deg.
  Proof.
    destruct (Nat.lt_ge_cases u (size h)) as [Hlt|Hge].
    - pose proof (@fold_iota_bound (fun u => length (outs h u) + length (ins h u))
                    (size h) 0 u ltac:(lia)) as Hb.
      cbv beta in Hb. unfold tot_deg. unfold adj_of. destruct d; try rewrite app_length; lia.
    - destruct Hwf as [Hz _]. destruct (Hz u Hge) as [H1 H2]. unfold adj_of.
      rewrite H1, H2. destruct d; cbn; lia.
  Qed.

  Lemma fuel_bound_enough : size h + tot_deg + 2 <= fuel_bound h.
  Proof. unfold fuel_bound. fold tot_deg. nia. Qed.

  Lemma run_fuel k fuel t cyc st r : k <> KDfs -> fuel_bound h <= fuel ->
    RUN k t cyc fuel = (st, r) -> r <> OutOfFuel.
  Proof.
    intros Hkd Hf Hrun. destruct (run_is_loop fuel t cyc Hkd) as [qpush [qpop [HQ Heq]]].
    rewrite Heq in Hrun.
    eapply (loop_fuel Hk Hwf Hinj Hpure HQ Hroot (tgt_of_cyc t (cyc:=cyc)) adj_le_tot);
      [apply init_GL| |exact Hrun].
    unfold FL, idq, init_st. cbn [s_tree length]. pose proof fuel_bound_enough. lia.
  Qed.

  Theorem wl_terminates : forall k fuel t cyc, k <> KDfs -> fuel_bound h <= fuel ->
    snd (SP k t cyc fuel) <> RFuel E /\ snd (SF k t fuel) <> RFuel E.
  Proof.
    intros k fuel t cyc Hkd Hf. split.
    - unfold search_path. destruct (RUN k t cyc fuel) as [st1 r] eqn:Hrun.
      pose proof (run_fuel _ _ Hkd Hf Hrun) as Hr. destruct r; cbn [snd]; try discriminate.
      + destruct (backtrack keqb (s_heap st1) (s_tree st1)); cbn [snd]; discriminate.
      + congruence.
    - unfold search_find. destruct (RUN k t false fuel) as [st1 r] eqn:Hrun.
      pose proof (run_fuel _ _ Hkd Hf Hrun) as Hr. destruct r; cbn [snd]; try discriminate.
      congruence.
  Qed.

  Theorem wl_find_agrees : forall k fuel t, k <> KDfs -> keyof h root <> Some t ->
    match snd (SP k (Some t) false fuel) with
    | RPath p => exists v p0 w, snd (SF k (Some t) fuel) = RNode E v /\ p = p0 ++ [w] /\
                                edst w = v /\ keyof h v = Some t
    | RNone _ => snd (SF k (Some t) fuel) = RNone E
    | RFuel _ => snd (SF k (Some t) fuel) = RFuel E
    | _ => False
    end.
  Proof.
    intros k fuel t Hkd Hrt. unfold search_path, search_find.
    destruct (RUN k (Some t) false fuel) as [st1 r] eqn:Hrun.
    pose proof (run_inv _ _ _ Hkd Hrun) as Hi. destruct r; cbn [snd]; try reflexivity.
    apply found_path in Hi.
    destruct Hi as [tr [w [p1 [p0 [Htr [Hw [Hnr [Hb [Hp0 [Hp [Hne [Hnd [Hin [Ht _]]]]]]]]]]]]]].
    rewrite Hb. cbn [snd]. exists v, p0, w. cbn [tgt_of] in Ht. apply (is_target_some Hk) in Ht.
    auto.
  Qed.

  Theorem wl_cycle_sound : forall k fuel t st p, k <> KDfs -> SP k t true fuel = (st, RPath p) ->
    IsPath h d accept root p root /\ p <> [] /\ NoDup (map (@edst E) p).
  Proof.
    intros k fuel t st p Hkd H. unfold search_path in H.
    destruct (RUN k t true fuel) as [st1 r] eqn:Hrun.
    pose proof (run_inv _ _ _ Hkd Hrun) as Hi. destruct r; [|discriminate|discriminate].
    apply found_path in Hi.
    destruct Hi as [tr [w [p1 [p0 [Htr [Hw [Hnr [Hb [Hp0 [Hp [Hne [Hnd [Hin [Ht _]]]]]]]]]]]]]].
    rewrite Hb in H. assert (Hpp : p = p1) by (inversion H; reflexivity). subst p. clear H.
    cbn [tgt_of] in Ht. apply (is_target_root Hk Hinj) in Ht; [|exact Hroot]. rewrite Ht in Hp.
    split; [exact Hp|split; [exact Hne|exact Hnd]].
  Qed.

  Theorem wl_cycle_complete : forall k fuel t st, k <> KDfs -> SP k t true fuel = (st, RNone E) ->
    ~ ReachPlus h d accept root root.
  Proof.
    intros k fuel t st Hkd H. unfold search_path in H.
    destruct (RUN k t true fuel) as [st1 r] eqn:Hrun.
    pose proof (run_inv _ _ _ Hkd Hrun) as Hi. destruct r.
    - destruct (backtrack keqb (s_heap st1) (s_tree st1)); discriminate.
    - destruct Hi as [R [Hh HG]]. eapply exhausted_nocycle; [exact HG|reflexivity].
    - discriminate.
  Qed.
End Main.

(* ------------------------------------------------------------------ *)
(* the recorder callback: every edge leaving a reachable node is handed over exactly once *)
Lemma firstn_S_nth {A} (l : list A) : forall n x, nth_error l n = Some x ->
  firstn (S n) l = firstn n l ++ [x].
Proof.
  induction l as [|a l IH]; intros n x Hn; [destruct n; discriminate|].
  destruct n as [|n]; cbn in Hn.
  - inversion Hn; subst. reflexivity.
  - cbn [firstn]. cbn [firstn] in IH. rewrite (IH n x Hn). reflexivity.
Qed.

Section Foreach.
  Variables K V E : Type.
  Variable keqb : K -> K -> bool.
  Hypothesis Hk : KeqbSpec keqb.
  Variable vleb : V -> V -> bool.
  Hypothesis Hheap : forall le : nat -> nat -> bool,
    QSpec (heap_push le) (heap_pop le) (fun q : list nat => q).
  Variable step : heap K V E -> op K V E -> heap K V E * outcome E.
  Variable pred : K -> K -> E -> bool.
  Variable h : heap K V E.
  Hypothesis Hwf : Wf h.
  Hypothesis Hinj : KeysInj h.
  Variable d : dir.
  Variable root : nat.
  Hypothesis Hroot : root < size h.

  Notation rec_cb := (mk_cb step false pred []).
  Notation acceptT := (fun _ : edge E => true).

  Lemma rec_cb_eq c h0 e :
    rec_cb c h0 e = (mkCb (S (c_count c)) (e :: c_trace c) (c_log c), h0, true).
  Proof. reflexivity. Qed.

  Lemma rec_pure : PureCb h rec_cb acceptT.
  Proof. intros c e. rewrite rec_cb_eq. split; reflexivity. Qed.

  Definition edges_of (u : nat) : list (edge E) :=
    map (fun x => (u, fst x, snd x)) (adj_of h d u).

  Lemma edges_nth u pos x : nth_error (adj_of h d u) pos = Some x ->
    nth_error (edges_of u) pos = Some (mk_e u x).
  Proof. intros H. unfold edges_of. erewrite map_nth_error; [reflexivity|exact H]. Qed.

  Section Q.
    Variable Q : Type.
    Variable qpush : Q -> nat -> Q.
    Variable qpop : Q -> option (nat * Q).
    Variable cont : Q -> list nat.
    Hypothesis HQ : QSpec qpush qpop cont.

    Notation sstF := (sst K V E (cbst E)).
    Definition TS (R : list nat) (lf sf : nat) (st : sstF) (q : Q) (u pos : nat) : Prop :=
      rev (c_trace (s_cb st)) = flat_map edges_of R ++ firstn pos (edges_of u).
    Definition TL (R : list nat) (f : nat) (st : sstF) (q : Q) : Prop :=
      rev (c_trace (s_cb st)) = flat_map edges_of R.
    Definition TE (R : list nat) (st : sstF) : Prop :=
      rev (c_trace (s_cb st)) = flat_map edges_of R.

    Lemma trace_step R (st : sstF) u pos x :
      rev (c_trace (s_cb st)) = flat_map edges_of R ++ firstn pos (edges_of u) ->
      nth_error (adj_of h d u) pos = Some x ->
      rev (c_trace (cb_next rec_cb h st (mk_e u x))) =
      flat_map edges_of R ++ firstn (S pos) (edges_of u).
    Proof.
      intros HT Hn. unfold cb_next. rewrite rec_cb_eq. cbn [fst c_trace rev].
      rewrite HT. erewrite firstn_S_nth by (apply edges_nth; exact Hn). rewrite app_assoc. reflexivity.
    Qed.

    Lemma foreach_loop R f (st : sstF) q st' :
      GL keqb acceptT h d None cont false root R st q -> TL R f st q ->
      wl_loop keqb rec_cb qpush qpop d None f st q = (st', Exhausted) ->
      exists R', GE keqb acceptT h d None false root R' st' /\ TE R' st'.
    Proof.
      intros HG HT Hrun.
      assert (Htg : false = true -> None = keyof h root) by discriminate.
      pose proof (@loop_rule2 K V E keqb Hk (cbst E) rec_cb acceptT h Hwf Hinj rec_pure d None
                    Q qpush qpop cont HQ false root Hroot Htg TS TL (fun _ _ => True) TE True) as H.
      eapply H in Hrun; clear H; [exact Hrun|..|exact HG|exact HT]; try (intros; exact I).
      - intros R0 lf sf st0 q0 u pos x _ HX Hn _. unfold TS, st_skip. cbn [s_cb].
        eapply trace_step; eauto.
      - intros R0 lf sf st0 q0 u pos x _ HX Hn _ _. unfold TS, st_disc. cbn [s_cb].
        eapply trace_step; eauto.
      - intros R0 lf sf st0 q0 u pos _ HX Hn. unfold TS, TL in *.
        rewrite flat_map_app. cbn [flat_map]. rewrite app_nil_r, HX. f_equal.
        apply firstn_all2. apply nth_error_None in Hn. unfold edges_of. rewrite map_length. exact Hn.
      - intros R0 f0 st0 q0 u q1 _ HX _. unfold TS, TL in *. cbn [firstn]. now rewrite app_nil_r.
      - intros R0 f0 st0 q0 _ HX _. exact HX.
    Qed.
  End Q.

  Theorem wl_foreach_once : forall k fuel st, k <> KDfs ->
    search_path keqb (mk_cb step false pred []) vleb k d fuel h (cb0 E) root None false = (st, RNone E) ->
    exists R, NoDup R /\ (forall v, In v R <-> Reach h d (fun _ => true) root v) /\
      Permutation (rev (c_trace (s_cb st)))
                  (flat_map (fun u => map (fun x => (u, fst x, snd x)) (adj_of h d u)) R).
  Proof.
    intros k fuel st Hkd H. unfold search_path in H.
    destruct (run_search keqb rec_cb vleb k d fuel h (cb0 E) root None false) as [st1 r] eqn:Hrun.
    destruct (run_is_loop keqb rec_cb vleb Hheap h d root (cb0 E) fuel None false Hkd)
      as [qpush [qpop [HQ Heq]]].
    rewrite Heq in Hrun. destruct r.
    - destruct (backtrack keqb (s_heap st1) (s_tree st1)); discriminate.
    - inversion H; subst st1. clear H.
      eapply (foreach_loop HQ) in Hrun.
      + destruct Hrun as [R [[Hh HG] HT]]. exists R. split; [|split].
        * pose proof (gp_nodup HG) as Hn. now rewrite app_nil_r in Hn.
        * intros v. split.
          -- intros Hv. apply (proj2 (exhausted_reach HG v)).
             apply (proj2 (gp_seen HG v)). left. exact Hv.
          -- intros Hr. apply (proj1 (exhausted_reach HG v)) in Hr.
             apply (proj1 (gp_seen HG v)) in Hr. destruct Hr as [Hr|[]]. exact Hr.
        * unfold TE in HT. rewrite HT. apply Permutation_refl.
      + apply (init_GL Hk acceptT Hinj d Hroot (cb0 E) None false).
      + reflexivity.
    - discriminate.
  Qed.
End Foreach.

Print Assumptions wl_path_sound.
Print Assumptions wl_path_complete.
Print Assumptions wl_cycle_sound.
Print Assumptions wl_cycle_complete.
Print Assumptions wl_no_panic.
Print Assumptions wl_terminates.
Print Assumptions wl_find_agrees.
Print Assumptions wl_exhaustive.
Print Assumptions wl_foreach_once.
