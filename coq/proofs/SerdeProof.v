(* SerdeProof.v — the deserialisation visitor of model/Serde.v (rebuild_nodes / rebuild_edges /
   rebuild / deserialize): what it builds, when it fails, and that an Ok result is a sound graph. *)
From Gdsl.Model Require Import Base NodeOps Container Serde Spec.
From Gdsl.Proofs Require Import NodeLemmas NodeList NodeD ContainerProof.
From Coq Require Import Lia Permutation.

Set Implicit Arguments.

Section SerdeProof.
  Variables K V E : Type.
  Variable keqb : K -> K -> bool.
  Hypothesis Hk : KeqbSpec keqb.
  Notation heap := (heap K V E).
  Implicit Types h : heap.
  Implicit Types g : graph K.

  (* every key carried by a heap node is bound in the container *)
  Definition Full h g : Prop := forall w k, keyof h w = Some k -> g_contains keqb g k = true.

  (* ---------------- small facts ---------------- *)
  Lemma g_contains_snoc g k u k' :
    g_contains keqb (g ++ [(k, u)]) k' = g_contains keqb g k' || keqb k k'.
  Proof.
    unfold g_contains. rewrite g_get_app, g_get_cons. cbn [g_get find option_map].
    destruct (g_get keqb g k'); [reflexivity|]. now destruct (keqb k k').
  Qed.

  Lemma nth_error_alloc h k v w : w < size h ->
    nth_error (nodes (alloc h k v)) w = nth_error (nodes h) w.
  Proof. intros Hw. unfold alloc. cbn [nodes]. now apply nth_error_app1. Qed.

  Lemma nth_error_alloc_new h k v : nth_error (nodes (alloc h k v)) (size h) = Some (k, v).
  Proof.
    unfold alloc, size. cbn [nodes]. rewrite nth_error_app2 by lia. now rewrite Nat.sub_diag.
  Qed.

  Lemma keyof_alloc_old h k v w : w < size h -> keyof (alloc h k v) w = keyof h w.
  Proof. intros Hw. unfold keyof. now rewrite nth_error_alloc. Qed.

  Lemma keyof_alloc_new h k v : keyof (alloc h k v) (size h) = Some k.
  Proof. unfold keyof. now rewrite nth_error_alloc_new. Qed.

  Lemma graphok_alloc_snoc h g k v :
    GraphOK h g -> g_contains keqb g k = false -> GraphOK (alloc h k v) (g ++ [(k, size h)]).
  Proof.
    intros (Hnd & Hb) Hc. split.
    - rewrite map_app. cbn [map fst]. apply nodup_snoc; [exact Hnd|].
      now apply (g_contains_false Hk).
    - intros k0 u0 Hin. rewrite size_alloc. apply in_app_or in Hin. destruct Hin as [Hin|[[= <- <-]|[]]].
      + destruct (Hb _ _ Hin) as [H1 H2]. rewrite keyof_alloc_old by exact H2. split; [exact H1|lia].
      + rewrite keyof_alloc_new. split; [reflexivity|lia].
  Qed.

  Lemma full_alloc_snoc h g k v : Full h g -> Full (alloc h k v) (g ++ [(k, size h)]).
  Proof.
    intros HF w k' Hw. rewrite g_contains_snoc. rewrite keyof_alloc in Hw.
    destruct (Nat.ltb_spec w (size h)) as [Hlt|Hge].
    - rewrite (HF _ _ Hw). reflexivity.
    - destruct (Nat.eqb_spec w (size h)); [|discriminate]. injection Hw as <-.
      rewrite (keqb_rfl Hk). apply orb_true_r.
  Qed.

  Lemma full_fresh h g k : Full h g -> g_contains keqb g k = false -> forall w, keyof h w <> Some k.
  Proof. intros HF Hc w Hw. apply HF in Hw. congruence. Qed.

  Lemma graphok_nodes h h' g : nodes h' = nodes h -> GraphOK h g -> GraphOK h' g.
  Proof.
    intros Hn (Hnd & Hb). split; [exact Hnd|]. intros k u Hin.
    unfold keyof, size. rewrite Hn. now apply Hb.
  Qed.

  (* ---------------- rebuild_nodes: unconditional facts ---------------- *)
  Lemma rebuild_nodes_mono l : forall h g,
    (forall k, g_contains keqb (snd (rebuild_nodes keqb h g l)) k = true <->
               (g_contains keqb g k = true \/ In k (map fst l))) /\
    (forall k u, g_get keqb g k = Some u -> g_get keqb (snd (rebuild_nodes keqb h g l)) k = Some u) /\
    (forall w, outs (fst (rebuild_nodes keqb h g l)) w = outs h w /\
               ins (fst (rebuild_nodes keqb h g l)) w = ins h w) /\
    (forall w, w < size h -> nth_error (nodes (fst (rebuild_nodes keqb h g l))) w = nth_error (nodes h) w) /\
    size h <= size (fst (rebuild_nodes keqb h g l)).
  Proof.
    induction l as [|[k v] l IH]; intros h g.
    - cbn [rebuild_nodes fst snd map In]. repeat split; auto; tauto.
    - cbn [rebuild_nodes map fst In]. destruct (g_contains keqb g k) eqn:Hc.
      + destruct (IH h g) as (H1 & H2 & H3 & H4 & H5). repeat split; auto; try apply H3.
        * intros H. apply H1 in H. tauto.
        * intros [H|[<-|H]]; apply H1; auto.
      + destruct (IH (alloc h k v) (g ++ [(k, size h)])) as (H1 & H2 & H3 & H4 & H5).
        rewrite size_alloc in H4, H5. repeat split.
        * intros H. apply H1 in H. rewrite g_contains_snoc in H. destruct H as [H|H]; [|tauto].
          apply orb_true_iff in H. destruct H as [H|H]; [tauto|]. apply Hk in H. tauto.
        * intros H. apply H1. rewrite g_contains_snoc. destruct H as [H|[<-|H]].
          -- left. rewrite H. reflexivity.
          -- left. rewrite (keqb_rfl Hk). apply orb_true_r.
          -- now right.
        * intros k0 u Hg. apply H2. rewrite g_get_app, Hg. reflexivity.
        * apply H3.
        * apply H3.
        * intros w Hw. rewrite H4 by lia. now apply nth_error_alloc.
        * lia.
  Qed.

  (* ---------------- rebuild_nodes: invariants ---------------- *)
  Lemma rebuild_nodes_inv l : forall h g, GraphOK h g -> Inv h -> Full h g ->
    GraphOK (fst (rebuild_nodes keqb h g l)) (snd (rebuild_nodes keqb h g l)) /\
    Inv (fst (rebuild_nodes keqb h g l)) /\
    Full (fst (rebuild_nodes keqb h g l)) (snd (rebuild_nodes keqb h g l)).
  Proof.
    induction l as [|[k v] l IH]; intros h g HG HI HF.
    - cbn [rebuild_nodes fst snd]. auto.
    - cbn [rebuild_nodes]. destruct (g_contains keqb g k) eqn:Hc.
      + now apply IH.
      + apply IH.
        * now apply graphok_alloc_snoc.
        * apply alloc_inv; [exact HI|]. now apply full_fresh with (g := g).
        * now apply full_alloc_snoc.
  Qed.

  Lemma rebuild_nodes_first l1 : forall h g k v l2,
    g_contains keqb g k = false -> ~ In k (map fst l1) ->
    exists u, g_get keqb (snd (rebuild_nodes keqb h g (l1 ++ (k, v) :: l2))) k = Some u /\
              nth_error (nodes (fst (rebuild_nodes keqb h g (l1 ++ (k, v) :: l2)))) u = Some (k, v).
  Proof.
    induction l1 as [|[k0 v0] l1 IH]; intros h g k v l2 Hc Hn.
    - cbn [app rebuild_nodes]. rewrite Hc.
      destruct (rebuild_nodes_mono l2 (alloc h k v) (g ++ [(k, size h)])) as (_ & H2 & _ & H4 & _).
      exists (size h). split.
      + apply H2. now apply (g_get_snoc_same Hk).
      + rewrite H4 by (rewrite size_alloc; lia). apply nth_error_alloc_new.
    - cbn [map fst In] in Hn. rewrite <- app_comm_cons. cbn [rebuild_nodes].
      destruct (g_contains keqb g k0) eqn:Hc0.
      + apply IH; [exact Hc|tauto].
      + apply IH; [|tauto]. rewrite g_contains_snoc, Hc. cbn [orb].
        apply (keqb_neq Hk). intros ->. apply Hn. now left.
  Qed.

  (* without [Full] the allocation may duplicate a key already carried by a heap node outside g *)
  Lemma rebuild_nodes_needs_full :
    exists (h : NodeOps.heap nat unit unit) (g : graph nat) (l : list (nat * unit)),
      GraphOK h g /\ Inv h /\ ~ Inv (fst (rebuild_nodes Nat.eqb h g l)).
  Proof.
    exists (alloc (@empty_heap nat unit unit) 5 tt), [], [(5, tt)]. split; [|split].
    - split; [constructor|intros k u []].
    - apply alloc_inv; [apply empty_inv|]. intros w. unfold keyof, empty_heap. cbn [nodes].
      now destruct w.
    - intros (_ & _ & HI). specialize (HI 0 1 5 eq_refl eq_refl). discriminate.
  Qed.

  (* ---------------- rebuild_edges ---------------- *)
  Definition out_step g (u : nat) (x : K * K * E) : list (nat * E) :=
    match x with (s, t, e) =>
      match g_get keqb g s, g_get keqb g t with
      | Some a, Some b => if Nat.eqb a u then [(b, e)] else []
      | _, _ => [] end end.
  Definition in_step g (v : nat) (x : K * K * E) : list (nat * E) :=
    match x with (s, t, e) =>
      match g_get keqb g s, g_get keqb g t with
      | Some a, Some b => if Nat.eqb b v then [(a, e)] else []
      | _, _ => [] end end.

  Lemma g_get_lt h g k u : GraphOK h g -> g_get keqb g k = Some u -> u < size h.
  Proof. intros (_ & Hb) Hg. apply (g_get_some_in Hk) in Hg. now apply Hb in Hg. Qed.

  Lemma rebuild_edges_spec_ es : forall h g, GraphOK h g -> Inv h ->
    match rebuild_edges keqb h g es with
    | DeOk h' g' => g' = g /\ Inv h' /\ nodes h' = nodes h /\
         (forall s t e, In (s, t, e) es -> g_contains keqb g s = true /\ g_contains keqb g t = true) /\
         (forall u, outs h' u = outs h u ++ flat_map (out_step g u) es) /\
         (forall v, ins h' v = ins h v ++ flat_map (in_step g v) es)
    | DeMissing _ _ k => exists es1 s t e es2, es = es1 ++ (s, t, e) :: es2 /\
         (forall s' t' e', In (s', t', e') es1 -> g_contains keqb g s' = true /\ g_contains keqb g t' = true) /\
         ((g_contains keqb g s = false /\ k = s) \/ (g_contains keqb g s = true /\ g_contains keqb g t = false /\ k = t))
    end.
  Proof.
    induction es as [|[[s t] e] es IH]; intros h g HG HI.
    - cbn [rebuild_edges flat_map]. split; [reflexivity|]. split; [exact HI|]. split; [reflexivity|].
      split; [intros ? ? ? []|]. split; intros; now rewrite app_nil_r.
    - cbn [rebuild_edges]. destruct (g_get keqb g s) as [a|] eqn:Hs.
      2:{ exists [], s, t, e, es. split; [reflexivity|]. split; [intros ? ? ? []|].
          left. split; [now apply g_contains_get_none|reflexivity]. }
      assert (Hcs : g_contains keqb g s = true) by (apply g_contains_get; eauto).
      destruct (g_get keqb g t) as [b|] eqn:Ht.
      2:{ exists [], s, t, e, es. split; [reflexivity|]. split; [intros ? ? ? []|].
          right. split; [exact Hcs|]. split; [now apply g_contains_get_none|reflexivity]. }
      assert (Hct : g_contains keqb g t = true) by (apply g_contains_get; eauto).
      assert (Ha : a < size h) by (eapply g_get_lt; eauto).
      assert (Hb : b < size h) by (eapply g_get_lt; eauto).
      assert (HG2 : GraphOK (connect h a b e) g) by (apply graphok_nodes with (h := h); [reflexivity|exact HG]).
      assert (HI2 : Inv (connect h a b e)) by now apply connect_inv.
      specialize (IH _ _ HG2 HI2).
      destruct (rebuild_edges keqb (connect h a b e) g es) as [h' g'|k].
      + destruct IH as (Hg & HI' & Hn & Hes & Ho & Hi). split; [exact Hg|]. split; [exact HI'|].
        split; [exact Hn|]. split; [|split].
        * intros s' t' e' [[= <- <- <-]|Hin]; [now split|]. eapply Hes, Hin.
        * intros u. rewrite Ho, connect_outs. cbn [flat_map]. unfold out_step at 2. rewrite Hs, Ht.
          destruct (Nat.eqb_spec a u) as [->|Hne].
          -- rewrite Nat.eqb_refl, <- app_assoc. reflexivity.
          -- destruct (Nat.eqb_spec u a); [congruence|]. reflexivity.
        * intros v. rewrite Hi, connect_ins. cbn [flat_map]. unfold in_step at 2. rewrite Hs, Ht.
          destruct (Nat.eqb_spec b v) as [->|Hne].
          -- rewrite Nat.eqb_refl, <- app_assoc. reflexivity.
          -- destruct (Nat.eqb_spec v b); [congruence|]. reflexivity.
      + destruct IH as (es1 & s0 & t0 & e0 & es2 & -> & Hpre & Hbad).
        exists ((s, t, e) :: es1), s0, t0, e0, es2. split; [reflexivity|]. split; [|exact Hbad].
        intros s' t' e' [[= <- <- <-]|Hin]; [now split|]. eapply Hpre, Hin.
  Qed.

  Lemma graphok_empty : GraphOK (@empty_heap K V E) [].
  Proof. split; [constructor|intros k u []]. Qed.

  Lemma full_empty : Full (@empty_heap K V E) [].
  Proof. intros w k H. unfold keyof, empty_heap in H. cbn [nodes] in H. now destruct w. Qed.

  Lemma rebuild_nodes_start ns :
    GraphOK (fst (rebuild_nodes keqb (@empty_heap K V E) [] ns)) (snd (rebuild_nodes keqb (@empty_heap K V E) [] ns)) /\
    Inv (fst (rebuild_nodes keqb (@empty_heap K V E) [] ns)) /\
    (forall k, g_contains keqb (snd (rebuild_nodes keqb (@empty_heap K V E) [] ns)) k = true <-> In k (map fst ns)).
  Proof.
    destruct (rebuild_nodes_inv ns graphok_empty (@empty_inv K V E) full_empty) as (HG & HI & _).
    split; [exact HG|]. split; [exact HI|]. intros k.
    destruct (rebuild_nodes_mono ns (@empty_heap K V E) []) as (H1 & _). rewrite H1.
    cbn. split; [intros [H|H]; [discriminate|exact H]|now right].
  Qed.

  Lemma rebuild_unfold ns es :
    rebuild keqb ns es =
    rebuild_edges keqb (fst (rebuild_nodes keqb (@empty_heap K V E) [] ns))
                  (snd (rebuild_nodes keqb (@empty_heap K V E) [] ns)) es.
  Proof. unfold rebuild. now destruct (rebuild_nodes keqb empty_heap [] ns). Qed.

  Lemma rebuild_edges_missing es1 : forall h g s t e es2 k,
    (forall s' t' e', In (s', t', e') es1 -> g_contains keqb g s' = true /\ g_contains keqb g t' = true) ->
    ((g_contains keqb g s = false /\ k = s) \/ (g_contains keqb g s = true /\ g_contains keqb g t = false /\ k = t)) ->
    rebuild_edges keqb h g (es1 ++ (s, t, e) :: es2) = DeMissing V E k.
  Proof.
    induction es1 as [|[[s0 t0] e0] es1 IH]; intros h g s t e es2 k Hpre Hbad.
    - cbn [app rebuild_edges]. destruct Hbad as [[Hs ->]|(Hs & Ht & ->)].
      + apply g_contains_get_none in Hs. now rewrite Hs.
      + apply g_contains_get in Hs. destruct Hs as [a Hs]. rewrite Hs.
        apply g_contains_get_none in Ht. now rewrite Ht.
    - rewrite <- app_comm_cons. cbn [rebuild_edges].
      destruct (Hpre s0 t0 e0 (or_introl eq_refl)) as [H1 H2].
      apply g_contains_get in H1. destruct H1 as [a H1]. apply g_contains_get in H2. destruct H2 as [b H2].
      rewrite H1, H2. apply IH; [|exact Hbad]. intros s' t' e' Hin. apply (Hpre s' t' e'). now right.
  Qed.

  (* a failing rebuild names the first missing key in listed order, source before target *)
  Lemma rebuild_missing_first ns es k :
    rebuild keqb ns es = DeMissing V E k <->
    (exists es1 s t e es2, es = es1 ++ (s, t, e) :: es2 /\
       (forall s' t' e', In (s', t', e') es1 -> In s' (map fst ns) /\ In t' (map fst ns)) /\
       ((~ In s (map fst ns) /\ k = s) \/ (In s (map fst ns) /\ ~ In t (map fst ns) /\ k = t))).
  Proof.
    rewrite rebuild_unfold. destruct (rebuild_nodes_start ns) as (HG & HI & Hc).
    assert (Hcf : forall k0, g_contains keqb (snd (rebuild_nodes keqb (@empty_heap K V E) [] ns)) k0 = false <-> ~ In k0 (map fst ns)).
    { intros k0. rewrite <- Hc. destruct (g_contains keqb _ k0); split; congruence. }
    split.
    - intros Hr. pose proof (rebuild_edges_spec_ es HG HI) as HE. rewrite Hr in HE.
      destruct HE as (es1 & s & t & e & es2 & -> & Hpre & Hbad).
      exists es1, s, t, e, es2. split; [reflexivity|]. split.
      + intros s' t' e' Hin. rewrite <- !Hc. eapply Hpre, Hin.
      + rewrite <- !Hcf, <- Hc. exact Hbad.
    - intros (es1 & s & t & e & es2 & -> & Hpre & Hbad). apply rebuild_edges_missing.
      + intros s' t' e' Hin. rewrite !Hc. eapply Hpre, Hin.
      + rewrite !Hcf, Hc. exact Hbad.
  Qed.

  (* ---------------- the required theorems ---------------- *)
  (* NOTE: the hypothesis [Full] (third premise) is added: see rebuild_nodes_needs_full *)
  Theorem rebuild_nodes_spec : forall l h g, GraphOK h g -> Inv h ->
    (forall w k, keyof h w = Some k -> g_contains keqb g k = true) ->
    let r := rebuild_nodes keqb h g l in
    GraphOK (fst r) (snd r) /\ Inv (fst r) /\
    (forall k, g_contains keqb (snd r) k = true <-> (g_contains keqb g k = true \/ In k (map fst l))) /\
    (forall k u, g_get keqb g k = Some u -> g_get keqb (snd r) k = Some u) /\
    (forall w, w < size h -> outs (fst r) w = outs h w /\ ins (fst r) w = ins h w /\ nth_error (nodes (fst r)) w = nth_error (nodes h) w) /\
    (forall w, size h <= w -> outs (fst r) w = [] /\ ins (fst r) w = []).
  Proof.
    intros l h g HG HI HF r. subst r.
    destruct (rebuild_nodes_inv l HG HI HF) as (HG' & HI' & _).
    destruct (rebuild_nodes_mono l h g) as (H1 & H2 & H3 & H4 & _).
    split; [exact HG'|]. split; [exact HI'|]. split; [exact H1|]. split; [exact H2|]. split.
    - intros w Hw. destruct (H3 w) as [Ho Hi]. split; [exact Ho|]. split; [exact Hi|]. now apply H4.
    - intros w Hw. destruct (H3 w) as [-> ->]. destruct HI as (_ & (H0 & _) & _). now apply H0.
  Qed.

  Theorem rebuild_nodes_first_wins : forall l h g,
    let r := rebuild_nodes keqb h g l in
    forall k, g_contains keqb g k = false -> forall l1 v l2, l = l1 ++ (k, v) :: l2 -> ~ In k (map fst l1) ->
      exists u, g_get keqb (snd r) k = Some u /\ nth_error (nodes (fst r)) u = Some (k, v).
  Proof.
    intros l h g r k Hc l1 v l2 -> Hn. subst r. now apply rebuild_nodes_first.
  Qed.

  Theorem rebuild_edges_spec : forall es h g, GraphOK h g -> Inv h ->
    match rebuild_edges keqb h g es with
    | DeOk h' g' => g' = g /\ Inv h' /\ nodes h' = nodes h /\ (forall s t e, In (s, t, e) es -> g_contains keqb g s = true /\ g_contains keqb g t = true) /\
         (forall u, outs h' u = outs h u ++ flat_map (fun x => match x with (s, t, e) => match g_get keqb g s, g_get keqb g t with Some a, Some b => if Nat.eqb a u then [(b, e)] else [] | _, _ => [] end end) es) /\
         (forall v, ins h' v = ins h v ++ flat_map (fun x => match x with (s, t, e) => match g_get keqb g s, g_get keqb g t with Some a, Some b => if Nat.eqb b v then [(a, e)] else [] | _, _ => [] end end) es)
    | DeMissing _ _ k => exists es1 s t e es2, es = es1 ++ (s, t, e) :: es2 /\
         (forall s' t' e', In (s', t', e') es1 -> g_contains keqb g s' = true /\ g_contains keqb g t' = true) /\
         ((g_contains keqb g s = false /\ k = s) \/ (g_contains keqb g s = true /\ g_contains keqb g t = false /\ k = t))
    end.
  Proof. exact rebuild_edges_spec_. Qed.

  Theorem rebuild_ok_inv : forall ns es h' g', rebuild keqb ns es = DeOk h' g' -> Inv h' /\ GraphOK h' g' /\
    (forall k, g_contains keqb g' k = true <-> In k (map fst ns)) /\
    (forall s t e, In (s, t, e) es -> In s (map fst ns) /\ In t (map fst ns)).
  Proof.
    intros ns es h' g'. rewrite rebuild_unfold.
    destruct (rebuild_nodes_start ns) as (HG & HI & Hc).
    pose proof (rebuild_edges_spec_ es HG HI) as HE. intros Hr. rewrite Hr in HE.
    destruct HE as (-> & HI' & Hn & Hes & _). split; [exact HI'|]. split; [|split].
    - now apply graphok_nodes with (h := fst (rebuild_nodes keqb empty_heap [] ns)).
    - exact Hc.
    - intros s t e Hin. destruct (Hes _ _ _ Hin) as [H1 H2]. now rewrite <- !Hc.
  Qed.

  Theorem rebuild_err_iff : forall ns es, (exists k, rebuild keqb ns es = DeMissing V E k) <->
    (exists s t e, In (s, t, e) es /\ (~ In s (map fst ns) \/ ~ In t (map fst ns))).
  Proof.
    intros ns es. rewrite rebuild_unfold.
    destruct (rebuild_nodes_start ns) as (HG & HI & Hc).
    pose proof (rebuild_edges_spec_ es HG HI) as HE. split.
    - intros [k Hr]. rewrite Hr in HE. destruct HE as (es1 & s & t & e & es2 & -> & _ & Hbad).
      exists s, t, e. split; [apply in_or_app; right; now left|].
      destruct Hbad as [[H _]|(_ & H & _)]; [left|right]; rewrite <- Hc, H; discriminate.
    - intros (s & t & e & Hin & Hbad).
      destruct (rebuild_edges keqb _ _ es) as [h' g'|k]; [|now exists k]. exfalso.
      destruct HE as (_ & _ & _ & Hes & _). destruct (Hes _ _ _ Hin) as [H1 H2].
      apply Hc in H1. apply Hc in H2. tauto.
  Qed.

  Theorem deserialize_total : forall dk dv de doc,
    (deserialize keqb dk dv de doc = DErr K V E) \/
    (exists h g, deserialize keqb dk dv de doc = DOk h g /\ Inv h /\ GraphOK h g).
  Proof.
    intros dk dv de doc. unfold deserialize. destruct (decode_doc dk dv de doc) as [[n e]|]; [|now left].
    destruct (rebuild keqb n e) as [h g|k] eqn:Hr; [|now left]. right. exists h, g.
    apply rebuild_ok_inv in Hr. tauto.
  Qed.
End SerdeProof.

Print Assumptions rebuild_nodes_spec.
Print Assumptions rebuild_nodes_first_wins.
Print Assumptions rebuild_edges_spec.
Print Assumptions rebuild_ok_inv.
Print Assumptions rebuild_err_iff.
Print Assumptions deserialize_total.
