(* SerdeProof.v — the deserialisation visitor of model/Serde.v (rebuild_nodes / rebuild_edges /
   rebuild / deserialize): what it builds, when it fails, and that an Ok result is a sound graph. *)
From Gdsl.Model Require Import Base NodeOps Container Serde Spec.
From Gdsl.Proofs Require Import NodeLemmas NodeList NodeD ContainerProof.
From Coq Require Import Lia Permutation.

Set Implicit Arguments.

(* ---------------- generic list facts ---------------- *)
Lemma flat_map_flat_map A B C (f : B -> list C) (g : A -> list B) (l : list A) :
  flat_map f (flat_map g l) = flat_map (fun x => flat_map f (g x)) l.
Proof.
  induction l as [|x l IH]; cbn [flat_map]; [reflexivity|]. rewrite flat_map_app. now f_equal.
Qed.

Lemma map_flat_map A B C (f : B -> C) (g : A -> list B) (l : list A) :
  map f (flat_map g l) = flat_map (fun x => map f (g x)) l.
Proof.
  induction l as [|x l IH]; cbn [flat_map]; [reflexivity|]. rewrite map_app. now f_equal.
Qed.

Lemma flat_map_nil A B (F : A -> list B) (l : list A) :
  (forall y, In y l -> F y = []) -> flat_map F l = [].
Proof.
  induction l as [|x l IH]; intros H; cbn [flat_map]; [reflexivity|].
  rewrite (H x) by now left. apply IH. intros y Hy. apply H. now right.
Qed.

Lemma flat_map_ext_in A B (F G : A -> list B) (l : list A) :
  (forall y, In y l -> F y = G y) -> flat_map F l = flat_map G l.
Proof.
  induction l as [|x l IH]; intros H; cbn [flat_map]; [reflexivity|].
  rewrite (H x) by now left. f_equal. apply IH. intros y Hy. apply H. now right.
Qed.

Lemma flat_map_single A B C (f : A -> C) (F : A -> list B) (l : list A) (x : A) :
  NoDup (map f l) -> In x l -> (forall y, In y l -> f y <> f x -> F y = []) -> flat_map F l = F x.
Proof.
  induction l as [|y l IH]; intros Hnd Hin HF; [destruct Hin|].
  cbn [map] in Hnd. inversion Hnd as [|? ? Hnin Hnd']; subst. cbn [flat_map].
  destruct Hin as [->|Hin].
  - rewrite flat_map_nil; [apply app_nil_r|]. intros z Hz. apply HF; [now right|].
    intros Heq. apply Hnin. rewrite <- Heq. now apply in_map.
  - rewrite (HF y); [|now left|].
    + cbn [app]. apply IH; [exact Hnd'|exact Hin|]. intros z Hz. apply HF. now right.
    + intros Heq. apply Hnin. rewrite Heq. now apply in_map.
Qed.

Lemma nodup_fst_inj A B (l : list (A * B)) k a b :
  NoDup (map fst l) -> In (k, a) l -> In (k, b) l -> a = b.
Proof.
  induction l as [|[k0 c] l IH]; intros Hnd Ha Hb; [destruct Ha|].
  cbn [map fst] in Hnd. inversion Hnd as [|? ? Hnin Hnd']; subst.
  destruct Ha as [Ha|Ha]; destruct Hb as [Hb|Hb].
  - congruence.
  - injection Ha as -> ->. exfalso. apply Hnin. change k with (fst (k, b)). now apply in_map.
  - injection Hb as -> ->. exfalso. apply Hnin. change k with (fst (k, a)). now apply in_map.
  - now apply IH.
Qed.

Lemma bool_eq_iff (a b : bool) : (a = true <-> b = true) -> a = b.
Proof.
  destruct a, b; intros [H1 H2]; try reflexivity.
  - symmetry. now apply H1.
  - now apply H2.
Qed.

Lemma filter_split_perm A (f : A -> bool) (l : list A) :
  Permutation l (filter f l ++ filter (fun x => negb (f x)) l).
Proof.
  induction l as [|x l IH]; [constructor|]. cbn [filter]. destruct (f x); cbn [negb app].
  - now constructor.
  - now apply Permutation_cons_app.
Qed.

Lemma to_as_filter E (m : nat) (l : list (nat * E)) :
  map (fun e => (m, e)) (to_ m l) = filter (fun p => Nat.eqb (fst p) m) l.
Proof.
  unfold to_. induction l as [|[v e] l IH]; [reflexivity|]. cbn [filter fst].
  destruct (Nat.eqb_spec v m) as [->|Hne]; cbn [map snd]; [now rewrite IH|exact IH].
Qed.

Lemma to_filter_other E (m m' : nat) (l : list (nat * E)) : m' <> m ->
  to_ m' (filter (fun p => negb (Nat.eqb (fst p) m)) l) = to_ m' l.
Proof.
  intros Hne. unfold to_. induction l as [|[v e] l IH]; [reflexivity|]. cbn [filter fst].
  destruct (Nat.eqb_spec v m) as [->|Hvm]; cbn [negb filter fst].
  - destruct (Nat.eqb_spec m m'); [congruence|exact IH].
  - destruct (Nat.eqb v m'); cbn [map snd]; [now rewrite IH|exact IH].
Qed.

(* grouping an adjacency list by neighbour, over a duplicate-free list of all its neighbours *)
Lemma group_perm E (ms : list nat) : forall l : list (nat * E),
  NoDup ms -> (forall p, In p l -> In (fst p) ms) ->
  Permutation (flat_map (fun m => map (fun e => (m, e)) (to_ m l)) ms) l.
Proof.
  induction ms as [|m ms IH]; intros l Hnd Hin.
  - destruct l as [|p l]; [constructor|]. destruct (Hin p (or_introl eq_refl)).
  - inversion Hnd as [|? ? Hnin Hnd']; subst. cbn [flat_map]. rewrite to_as_filter.
    eapply perm_trans; [|apply Permutation_sym, (filter_split_perm (fun p => Nat.eqb (fst p) m))].
    apply Permutation_app_head.
    rewrite (flat_map_ext_in _ (fun m' => map (fun e => (m', e)) (to_ m' (filter (fun p => negb (Nat.eqb (fst p) m)) l)))).
    + apply IH; [exact Hnd'|]. intros p Hp. apply filter_In in Hp. destruct Hp as [Hp Hf].
      destruct (Hin p Hp) as [Heq|Hms]; [|exact Hms]. rewrite <- Heq, Nat.eqb_refl in Hf. discriminate.
    + intros m' Hm'. rewrite to_filter_other; [reflexivity|]. intros ->. contradiction.
Qed.

Section SerdeProof.
  Variables K V E : Type.
  Variable keqb : K -> K -> bool.
  Hypothesis Hk : KeqbSpec keqb.
  Notation heap := (heap K V E).
  Implicit Types h : heap.
  Implicit Types g : graph K.

  (* every key carried by a heap node is bound in the container *)
  Definition Full h g : Prop := forall w k, keyof h w = Some k -> g_contains keqb g k = true.

  (* ---------------- small facts ---------------- *)
  Lemma g_contains_snoc g k u k' :
    g_contains keqb (g ++ [(k, u)]) k' = g_contains keqb g k' || keqb k k'.
  Proof.
    unfold g_contains. rewrite g_get_app, g_get_cons. cbn [g_get find option_map].
    destruct (g_get keqb g k'); [reflexivity|]. now destruct (keqb k k').
  Qed.

  Lemma nth_error_alloc h k v w : w < size h ->
    nth_error (nodes (alloc h k v)) w = nth_error (nodes h) w.
  Proof. intros Hw. unfold alloc. cbn [nodes]. now apply nth_error_app1. Qed.

  Lemma nth_error_alloc_new h k v : nth_error (nodes (alloc h k v)) (size h) = Some (k, v).
  Proof.
    unfold alloc, size. cbn [nodes]. rewrite nth_error_app2 by lia. now rewrite Nat.sub_diag.
  Qed.

  Lemma keyof_alloc_old h k v w : w < size h -> keyof (alloc h k v) w = keyof h w.
  Proof. intros Hw. unfold keyof. now rewrite nth_error_alloc. Qed.

  Lemma keyof_alloc_new h k v : keyof (alloc h k v) (size h) = Some k.
  Proof. unfold keyof. now rewrite nth_error_alloc_new. Qed.

  Lemma graphok_alloc_snoc h g k v :
    GraphOK h g -> g_contains keqb g k = false -> GraphOK (alloc h k v) (g ++ [(k, size h)]).
  Proof.
    intros (Hnd & Hb) Hc. split.
    - rewrite map_app. cbn [map fst]. apply nodup_snoc; [exact Hnd|].
      now apply (g_contains_false Hk).
    - intros k0 u0 Hin. rewrite size_alloc. apply in_app_or in Hin. destruct Hin as [Hin|[[= <- <-]|[]]].
      + destruct (Hb _ _ Hin) as [H1 H2]. rewrite keyof_alloc_old by exact H2. split; [exact H1|lia].
      + rewrite keyof_alloc_new. split; [reflexivity|lia].
  Qed.

  Lemma full_alloc_snoc h g k v : Full h g -> Full (alloc h k v) (g ++ [(k, size h)]).
  Proof.
    intros HF w k' Hw. rewrite g_contains_snoc. rewrite keyof_alloc in Hw.
    destruct (Nat.ltb_spec w (size h)) as [Hlt|Hge].
    - rewrite (HF _ _ Hw). reflexivity.
    - destruct (Nat.eqb_spec w (size h)); [|discriminate]. injection Hw as <-.
      rewrite (keqb_rfl Hk). apply orb_true_r.
  Qed.

  Lemma full_fresh h g k : Full h g -> g_contains keqb g k = false -> forall w, keyof h w <> Some k.
  Proof. intros HF Hc w Hw. apply HF in Hw. congruence. Qed.

  Lemma graphok_nodes h h' g : nodes h' = nodes h -> GraphOK h g -> GraphOK h' g.
  Proof.
    intros Hn (Hnd & Hb). split; [exact Hnd|]. intros k u Hin.
    unfold keyof, size. rewrite Hn. now apply Hb.
  Qed.

  (* ---------------- rebuild_nodes: unconditional facts ---------------- *)
  Lemma rebuild_nodes_mono l : forall h g,
    (forall k, g_contains keqb (snd (rebuild_nodes keqb h g l)) k = true <->
               (g_contains keqb g k = true \/ In k (map fst l))) /\
    (forall k u, g_get keqb g k = Some u -> g_get keqb (snd (rebuild_nodes keqb h g l)) k = Some u) /\
    (forall w, outs (fst (rebuild_nodes keqb h g l)) w = outs h w /\
               ins (fst (rebuild_nodes keqb h g l)) w = ins h w) /\
    (forall w, w < size h -> nth_error (nodes (fst (rebuild_nodes keqb h g l))) w = nth_error (nodes h) w) /\
    size h <= size (fst (rebuild_nodes keqb h g l)).
  Proof.
    induction l as [|[k v] l IH]; intros h g.
    - cbn [rebuild_nodes fst snd map In]. repeat split; auto; tauto.
    - cbn [rebuild_nodes map fst In]. destruct (g_contains keqb g k) eqn:Hc.
      + destruct (IH h g) as (H1 & H2 & H3 & H4 & H5). repeat split; auto; try apply H3.
        * intros H. apply H1 in H. tauto.
        * intros [H|[<-|H]]; apply H1; auto.
      + destruct (IH (alloc h k v) (g ++ [(k, size h)])) as (H1 & H2 & H3 & H4 & H5).
        rewrite size_alloc in H4, H5. repeat split.
        * intros H. apply H1 in H. rewrite g_contains_snoc in H. destruct H as [H|H]; [|tauto].
          apply orb_true_iff in H. destruct H as [H|H]; [tauto|]. apply Hk in H. tauto.
        * intros H. apply H1. rewrite g_contains_snoc. destruct H as [H|[<-|H]].
          -- left. rewrite H. reflexivity.
          -- left. rewrite (keqb_rfl Hk). apply orb_true_r.
          -- now right.
        * intros k0 u Hg. apply H2. rewrite g_get_app, Hg. reflexivity.
        * apply H3.
        * apply H3.
        * intros w Hw. rewrite H4 by lia. now apply nth_error_alloc.
        * lia.
  Qed.

  (* ---------------- rebuild_nodes: invariants ---------------- *)
  Lemma rebuild_nodes_inv l : forall h g, GraphOK h g -> Inv h -> Full h g ->
    GraphOK (fst (rebuild_nodes keqb h g l)) (snd (rebuild_nodes keqb h g l)) /\
    Inv (fst (rebuild_nodes keqb h g l)) /\
    Full (fst (rebuild_nodes keqb h g l)) (snd (rebuild_nodes keqb h g l)).
  Proof.
    induction l as [|[k v] l IH]; intros h g HG HI HF.
    - cbn [rebuild_nodes fst snd]. auto.
    - cbn [rebuild_nodes]. destruct (g_contains keqb g k) eqn:Hc.
      + now apply IH.
      + apply IH.
        * now apply graphok_alloc_snoc.
        * apply alloc_inv; [exact HI|]. now apply full_fresh with (g := g).
        * now apply full_alloc_snoc.
  Qed.

  Lemma rebuild_nodes_first l1 : forall h g k v l2,
    g_contains keqb g k = false -> ~ In k (map fst l1) ->
    exists u, g_get keqb (snd (rebuild_nodes keqb h g (l1 ++ (k, v) :: l2))) k = Some u /\
              nth_error (nodes (fst (rebuild_nodes keqb h g (l1 ++ (k, v) :: l2)))) u = Some (k, v).
  Proof.
    induction l1 as [|[k0 v0] l1 IH]; intros h g k v l2 Hc Hn.
    - cbn [app rebuild_nodes]. rewrite Hc.
      destruct (rebuild_nodes_mono l2 (alloc h k v) (g ++ [(k, size h)])) as (_ & H2 & _ & H4 & _).
      exists (size h). split.
      + apply H2. now apply (g_get_snoc_same Hk).
      + rewrite H4 by (rewrite size_alloc; lia). apply nth_error_alloc_new.
    - cbn [map fst In] in Hn. rewrite <- app_comm_cons. cbn [rebuild_nodes].
      destruct (g_contains keqb g k0) eqn:Hc0.
      + apply IH; [exact Hc|tauto].
      + apply IH; [|tauto]. rewrite g_contains_snoc, Hc. cbn [orb].
        apply (keqb_neq Hk). intros ->. apply Hn. now left.
  Qed.

  (* without [Full] the allocation may duplicate a key already carried by a heap node outside g *)
  Lemma rebuild_nodes_needs_full :
    exists (h : NodeOps.heap nat unit unit) (g : graph nat) (l : list (nat * unit)),
      GraphOK h g /\ Inv h /\ ~ Inv (fst (rebuild_nodes Nat.eqb h g l)).
  Proof.
    exists (alloc (@empty_heap nat unit unit) 5 tt), [], [(5, tt)]. split; [|split].
    - split; [constructor|intros k u []].
    - apply alloc_inv; [apply empty_inv|]. intros w. unfold keyof, empty_heap. cbn [nodes].
      now destruct w.
    - intros (_ & _ & HI). specialize (HI 0 1 5 eq_refl eq_refl). discriminate.
  Qed.

  (* ---------------- rebuild_edges ---------------- *)
  Definition out_step g (u : nat) (x : K * K * E) : list (nat * E) :=
    match x with (s, t, e) =>
      match g_get keqb g s, g_get keqb g t with
      | Some a, Some b => if Nat.eqb a u then [(b, e)] else []
      | _, _ => [] end end.
  Definition in_step g (v : nat) (x : K * K * E) : list (nat * E) :=
    match x with (s, t, e) =>
      match g_get keqb g s, g_get keqb g t with
      | Some a, Some b => if Nat.eqb b v then [(a, e)] else []
      | _, _ => [] end end.

  Lemma g_get_lt h g k u : GraphOK h g -> g_get keqb g k = Some u -> u < size h.
  Proof. intros (_ & Hb) Hg. apply (g_get_some_in Hk) in Hg. now apply Hb in Hg. Qed.

  Lemma rebuild_edges_spec_ es : forall h g, GraphOK h g -> Inv h ->
    match rebuild_edges keqb h g es with
    | DeOk h' g' => g' = g /\ Inv h' /\ nodes h' = nodes h /\
         (forall s t e, In (s, t, e) es -> g_contains keqb g s = true /\ g_contains keqb g t = true) /\
         (forall u, outs h' u = outs h u ++ flat_map (out_step g u) es) /\
         (forall v, ins h' v = ins h v ++ flat_map (in_step g v) es)
    | DeMissing _ _ k => exists es1 s t e es2, es = es1 ++ (s, t, e) :: es2 /\
         (forall s' t' e', In (s', t', e') es1 -> g_contains keqb g s' = true /\ g_contains keqb g t' = true) /\
         ((g_contains keqb g s = false /\ k = s) \/ (g_contains keqb g s = true /\ g_contains keqb g t = false /\ k = t))
    end.
  Proof.
    induction es as [|[[s t] e] es IH]; intros h g HG HI.
    - cbn [rebuild_edges flat_map]. split; [reflexivity|]. split; [exact HI|]. split; [reflexivity|].
      split; [intros ? ? ? []|]. split; intros; now rewrite app_nil_r.
    - cbn [rebuild_edges]. destruct (g_get keqb g s) as [a|] eqn:Hs.
      2:{ exists [], s, t, e, es. split; [reflexivity|]. split; [intros ? ? ? []|].
          left. split; [now apply g_contains_get_none|reflexivity]. }
      assert (Hcs : g_contains keqb g s = true) by (apply g_contains_get; eauto).
      destruct (g_get keqb g t) as [b|] eqn:Ht.
      2:{ exists [], s, t, e, es. split; [reflexivity|]. split; [intros ? ? ? []|].
          right. split; [exact Hcs|]. split; [now apply g_contains_get_none|reflexivity]. }
      assert (Hct : g_contains keqb g t = true) by (apply g_contains_get; eauto).
      assert (Ha : a < size h) by (eapply g_get_lt; eauto).
      assert (Hb : b < size h) by (eapply g_get_lt; eauto).
      assert (HG2 : GraphOK (connect h a b e) g) by (apply graphok_nodes with (h := h); [reflexivity|exact HG]).
      assert (HI2 : Inv (connect h a b e)) by now apply connect_inv.
      specialize (IH _ _ HG2 HI2).
      destruct (rebuild_edges keqb (connect h a b e) g es) as [h' g'|k].
      + destruct IH as (Hg & HI' & Hn & Hes & Ho & Hi). split; [exact Hg|]. split; [exact HI'|].
        split; [exact Hn|]. split; [|split].
        * intros s' t' e' [[= <- <- <-]|Hin]; [now split|]. eapply Hes, Hin.
        * intros u. rewrite Ho, connect_outs. cbn [flat_map]. unfold out_step at 2. rewrite Hs, Ht.
          destruct (Nat.eqb_spec a u) as [->|Hne].
          -- rewrite Nat.eqb_refl, <- app_assoc. reflexivity.
          -- destruct (Nat.eqb_spec u a); [congruence|]. reflexivity.
        * intros v. rewrite Hi, connect_ins. cbn [flat_map]. unfold in_step at 2. rewrite Hs, Ht.
          destruct (Nat.eqb_spec b v) as [->|Hne].
          -- rewrite Nat.eqb_refl, <- app_assoc. reflexivity.
          -- destruct (Nat.eqb_spec v b); [congruence|]. reflexivity.
      + destruct IH as (es1 & s0 & t0 & e0 & es2 & -> & Hpre & Hbad).
        exists ((s, t, e) :: es1), s0, t0, e0, es2. split; [reflexivity|]. split; [|exact Hbad].
        intros s' t' e' [[= <- <- <-]|Hin]; [now split|]. eapply Hpre, Hin.
  Qed.

  Lemma graphok_empty : GraphOK (@empty_heap K V E) [].
  Proof. split; [constructor|intros k u []]. Qed.

  Lemma full_empty : Full (@empty_heap K V E) [].
  Proof. intros w k H. unfold keyof, empty_heap in H. cbn [nodes] in H. now destruct w. Qed.

  Lemma rebuild_nodes_start ns :
    GraphOK (fst (rebuild_nodes keqb (@empty_heap K V E) [] ns)) (snd (rebuild_nodes keqb (@empty_heap K V E) [] ns)) /\
    Inv (fst (rebuild_nodes keqb (@empty_heap K V E) [] ns)) /\
    (forall k, g_contains keqb (snd (rebuild_nodes keqb (@empty_heap K V E) [] ns)) k = true <-> In k (map fst ns)).
  Proof.
    destruct (rebuild_nodes_inv ns graphok_empty (@empty_inv K V E) full_empty) as (HG & HI & _).
    split; [exact HG|]. split; [exact HI|]. intros k.
    destruct (rebuild_nodes_mono ns (@empty_heap K V E) []) as (H1 & _). rewrite H1.
    cbn. split; [intros [H|H]; [discriminate|exact H]|now right].
  Qed.

  Lemma rebuild_unfold ns es :
    rebuild keqb ns es =
    rebuild_edges keqb (fst (rebuild_nodes keqb (@empty_heap K V E) [] ns))
                  (snd (rebuild_nodes keqb (@empty_heap K V E) [] ns)) es.
  Proof. unfold rebuild. now destruct (rebuild_nodes keqb empty_heap [] ns). Qed.

  Lemma rebuild_edges_missing es1 : forall h g s t e es2 k,
    (forall s' t' e', In (s', t', e') es1 -> g_contains keqb g s' = true /\ g_contains keqb g t' = true) ->
    ((g_contains keqb g s = false /\ k = s) \/ (g_contains keqb g s = true /\ g_contains keqb g t = false /\ k = t)) ->
    rebuild_edges keqb h g (es1 ++ (s, t, e) :: es2) = DeMissing V E k.
  Proof.
    induction es1 as [|[[s0 t0] e0] es1 IH]; intros h g s t e es2 k Hpre Hbad.
    - cbn [app rebuild_edges]. destruct Hbad as [[Hs ->]|(Hs & Ht & ->)].
      + apply g_contains_get_none in Hs. now rewrite Hs.
      + apply g_contains_get in Hs. destruct Hs as [a Hs]. rewrite Hs.
        apply g_contains_get_none in Ht. now rewrite Ht.
    - rewrite <- app_comm_cons. cbn [rebuild_edges].
      destruct (Hpre s0 t0 e0 (or_introl eq_refl)) as [H1 H2].
      apply g_contains_get in H1. destruct H1 as [a H1]. apply g_contains_get in H2. destruct H2 as [b H2].
      rewrite H1, H2. apply IH; [|exact Hbad]. intros s' t' e' Hin. apply (Hpre s' t' e'). now right.
  Qed.

  (* a failing rebuild names the first missing key in listed order, source before target *)
  Lemma rebuild_missing_first ns es k :
    rebuild keqb ns es = DeMissing V E k <->
    (exists es1 s t e es2, es = es1 ++ (s, t, e) :: es2 /\
       (forall s' t' e', In (s', t', e') es1 -> In s' (map fst ns) /\ In t' (map fst ns)) /\
       ((~ In s (map fst ns) /\ k = s) \/ (In s (map fst ns) /\ ~ In t (map fst ns) /\ k = t))).
  Proof.
    rewrite rebuild_unfold. destruct (rebuild_nodes_start ns) as (HG & HI & Hc).
    assert (Hcf : forall k0, g_contains keqb (snd (rebuild_nodes keqb (@empty_heap K V E) [] ns)) k0 = false <-> ~ In k0 (map fst ns)).
    { intros k0. rewrite <- Hc. destruct (g_contains keqb _ k0); split; congruence. }
    split.
    - intros Hr. pose proof (rebuild_edges_spec_ es HG HI) as HE. rewrite Hr in HE.
      destruct HE as (es1 & s & t & e & es2 & -> & Hpre & Hbad).
      exists es1, s, t, e, es2. split; [reflexivity|]. split.
      + intros s' t' e' Hin. rewrite <- !Hc. eapply Hpre, Hin.
      + rewrite <- !Hcf, <- Hc. exact Hbad.
    - intros (es1 & s & t & e & es2 & -> & Hpre & Hbad). apply rebuild_edges_missing.
      + intros s' t' e' Hin. rewrite !Hc. eapply Hpre, Hin.
      + rewrite !Hcf, Hc. exact Hbad.
  Qed.

  (* ---------------- a successful rebuild, by keys ---------------- *)
  Lemma rebuild_nodes_nodes_in l : forall h g kv,
    In kv (nodes (fst (rebuild_nodes keqb h g l))) -> In kv (nodes h) \/ In kv l.
  Proof.
    induction l as [|[k v] l IH]; intros h g kv Hin.
    - cbn [rebuild_nodes fst] in Hin. now left.
    - cbn [rebuild_nodes] in Hin. destruct (g_contains keqb g k).
      + apply IH in Hin. destruct Hin as [H|H]; [now left|right; now right].
      + apply IH in Hin. destruct Hin as [H|H]; [|right; now right].
        unfold alloc in H. cbn [nodes] in H. apply in_app_or in H.
        destruct H as [H|[<-|[]]]; [now left|right; now left].
  Qed.

  (* adjacency lists read through keys *)
  Definition keyed h (l : list (nat * E)) : list (option K * E) :=
    map (fun p => (keyof h (fst p), snd p)) l.
  Definition kouts (k : K) (es : list (K * K * E)) : list (option K * E) :=
    flat_map (fun x => if keqb (fst (fst x)) k then [(Some (snd (fst x)), snd x)] else []) es.
  Definition kins (k : K) (es : list (K * K * E)) : list (option K * E) :=
    flat_map (fun x => if keqb (snd (fst x)) k then [(Some (fst (fst x)), snd x)] else []) es.

  Lemma keyed_app h l1 l2 : keyed h (l1 ++ l2) = keyed h l1 ++ keyed h l2.
  Proof. apply map_app. Qed.

  Lemma g_get_key h g k u : GraphOK h g -> g_get keqb g k = Some u -> keyof h u = Some k.
  Proof. intros (_ & Hb) Hg. apply (g_get_some_in Hk) in Hg. now apply Hb in Hg. Qed.

  Lemma keyed_out_step h g k u es :
    GraphOK h g -> g_get keqb g k = Some u ->
    (forall s t e, In (s, t, e) es -> g_contains keqb g s = true /\ g_contains keqb g t = true) ->
    keyed h (flat_map (out_step g u) es) = kouts k es.
  Proof.
    intros HG Hu. induction es as [|[[s t] e] es IH]; intros Hes; [reflexivity|].
    cbn [flat_map]. rewrite keyed_app, IH by (intros s' t' e' Hin; apply (Hes s' t' e'); now right).
    unfold kouts at 2. cbn [flat_map fst snd]. fold (kouts k es). f_equal.
    destruct (Hes s t e (or_introl eq_refl)) as [Hs Ht].
    apply g_contains_get in Hs. destruct Hs as [a Hs]. apply g_contains_get in Ht. destruct Ht as [b Ht].
    unfold out_step. rewrite Hs, Ht. destruct (Nat.eqb_spec a u) as [->|Hne].
    - pose proof (g_get_key _ HG Hs) as H1. pose proof (g_get_key _ HG Hu) as H2.
      rewrite H1 in H2. injection H2 as ->. rewrite (keqb_rfl Hk).
      unfold keyed. cbn [map fst snd]. now rewrite (g_get_key _ HG Ht).
    - destruct (keqb s k) eqn:Hq; [|reflexivity]. apply Hk in Hq. subst s. congruence.
  Qed.

  Lemma keyed_in_step h g k u es :
    GraphOK h g -> g_get keqb g k = Some u ->
    (forall s t e, In (s, t, e) es -> g_contains keqb g s = true /\ g_contains keqb g t = true) ->
    keyed h (flat_map (in_step g u) es) = kins k es.
  Proof.
    intros HG Hu. induction es as [|[[s t] e] es IH]; intros Hes; [reflexivity|].
    cbn [flat_map]. rewrite keyed_app, IH by (intros s' t' e' Hin; apply (Hes s' t' e'); now right).
    unfold kins at 2. cbn [flat_map fst snd]. fold (kins k es). f_equal.
    destruct (Hes s t e (or_introl eq_refl)) as [Hs Ht].
    apply g_contains_get in Hs. destruct Hs as [a Hs]. apply g_contains_get in Ht. destruct Ht as [b Ht].
    unfold in_step. rewrite Hs, Ht. destruct (Nat.eqb_spec b u) as [->|Hne].
    - pose proof (g_get_key _ HG Ht) as H1. pose proof (g_get_key _ HG Hu) as H2.
      rewrite H1 in H2. injection H2 as ->. rewrite (keqb_rfl Hk).
      unfold keyed. cbn [map fst snd]. now rewrite (g_get_key _ HG Hs).
    - destruct (keqb t k) eqn:Hq; [|reflexivity]. apply Hk in Hq. subst t. congruence.
  Qed.

  Lemma rebuild_ok_full ns es :
    (forall s t e, In (s, t, e) es -> In s (map fst ns) /\ In t (map fst ns)) ->
    exists h' g', rebuild keqb ns es = DeOk h' g' /\ Inv h' /\ GraphOK h' g' /\
      (forall k, g_contains keqb g' k = true <-> In k (map fst ns)) /\
      (forall i kv, nth_error (nodes h') i = Some kv -> In kv ns) /\
      (forall u, outs h' u = flat_map (out_step g' u) es) /\
      (forall v, ins h' v = flat_map (in_step g' v) es).
  Proof.
    intros Hdecl. rewrite rebuild_unfold. destruct (rebuild_nodes_start ns) as (HG & HI & Hc).
    pose proof (rebuild_edges_spec_ es HG HI) as HE.
    destruct (rebuild_nodes_mono ns (@empty_heap K V E) []) as (_ & _ & H3 & _).
    destruct (rebuild_edges keqb _ _ es) as [h' g'|k].
    - exists h', g'. destruct HE as (-> & HI' & Hn & Hes & Ho & Hi). split; [reflexivity|].
      split; [exact HI'|]. split; [now apply graphok_nodes with (h := fst (rebuild_nodes keqb empty_heap [] ns))|].
      split; [exact Hc|]. split; [|split].
      + intros i kv Hi'. rewrite Hn in Hi'. apply nth_error_In in Hi'.
        apply rebuild_nodes_nodes_in in Hi'. destruct Hi' as [[]|H]. exact H.
      + intros u. rewrite Ho. destruct (H3 u) as [-> _]. reflexivity.
      + intros v. rewrite Hi. destruct (H3 v) as [_ ->]. reflexivity.
    - exfalso. destruct HE as (es1 & s & t & e & es2 & -> & _ & Hbad).
      destruct (Hdecl s t e) as [H1 H2]; [apply in_or_app; right; now left|].
      apply Hc in H1. apply Hc in H2. destruct Hbad as [[H _]|(_ & H & _)]; congruence.
  Qed.

  Lemma rebuild_keyed ns es :
    (forall s t e, In (s, t, e) es -> In s (map fst ns) /\ In t (map fst ns)) ->
    exists h' g', rebuild keqb ns es = DeOk h' g' /\ Inv h' /\ GraphOK h' g' /\
      (forall k, g_contains keqb g' k = true <-> In k (map fst ns)) /\
      (forall k u, g_get keqb g' k = Some u ->
         (exists v, In (k, v) ns /\ valof h' u = Some v) /\
         keyed h' (outs h' u) = kouts k es /\ keyed h' (ins h' u) = kins k es).
  Proof.
    intros Hdecl. destruct (@rebuild_ok_full ns es Hdecl) as (h' & g' & Hr & HI & HG & Hc & Hn & Ho & Hi).
    exists h', g'. split; [exact Hr|]. split; [exact HI|]. split; [exact HG|]. split; [exact Hc|].
    intros k u Hu.
    assert (Hes : forall s t e, In (s, t, e) es -> g_contains keqb g' s = true /\ g_contains keqb g' t = true).
    { intros s t e Hin. rewrite !Hc. now apply (Hdecl s t e). }
    split; [|split].
    - pose proof (g_get_key _ HG Hu) as Hku. unfold keyof in Hku. unfold valof.
      destruct (nth_error (nodes h') u) as [[k' v]|] eqn:Hnu; [|discriminate].
      cbn [option_map fst] in Hku. injection Hku as ->. exists v. split; [now apply (Hn u)|reflexivity].
    - rewrite Ho. now apply keyed_out_step.
    - rewrite Hi. now apply keyed_in_step.
  Qed.

  (* ---------------- decompose, then rebuild ---------------- *)
  Lemma members_nodup h g : GraphOK h g -> NoDup (members g).
  Proof.
    intros (Hnd & Hb). unfold members. induction g as [|[k u] g IH]; [constructor|].
    cbn [map fst snd] in *. inversion Hnd as [|? ? Hnin Hnd']; subst. constructor.
    - intros Hin. apply in_map_iff in Hin. destruct Hin as ([k' u'] & Hu & Hin). cbn [snd] in Hu. subst u'.
      destruct (Hb k u (or_introl eq_refl)) as [H1 _]. destruct (Hb k' u (or_intror Hin)) as [H2 _].
      rewrite H1 in H2. injection H2 as <-. apply Hnin. change k with (fst (k, u)). now apply in_map.
    - apply IH; [exact Hnd'|]. intros k0 u0 Hin. apply Hb. now right.
  Qed.

  Definition dnodes h (ms : list nat) : list (K * V) :=
    flat_map (fun u => match nth_error (nodes h) u with Some kv => [kv] | None => [] end) ms.
  Definition dedges_to h (ku : K) (l : list (nat * E)) : list (K * K * E) :=
    flat_map (fun p => match keyof h (fst p) with Some kv => [(ku, kv, snd p)] | None => [] end) l.
  Definition dedges_of h (u : nat) : list (K * K * E) :=
    match keyof h u with Some ku => dedges_to h ku (outs h u) | None => [] end.

  Lemma decompose_eq h g order :
    decompose keqb h g order =
    (dnodes h (g_iter keqb g order), flat_map (dedges_of h) (g_iter keqb g order)).
  Proof. reflexivity. Qed.

  Lemma kouts_dedges_same h k l :
    (forall p, In p l -> exists kv, keyof h (fst p) = Some kv) ->
    kouts k (dedges_to h k l) = keyed h l.
  Proof.
    induction l as [|p l IH]; intros Hl; [reflexivity|].
    unfold dedges_to. cbn [flat_map]. fold (dedges_to h k l).
    destruct (Hl p (or_introl eq_refl)) as [kv Hkv]. rewrite Hkv.
    unfold kouts. cbn [app flat_map fst snd]. fold (kouts k (dedges_to h k l)).
    rewrite (keqb_rfl Hk), IH by (intros q Hq; apply Hl; now right).
    unfold keyed. cbn [map app]. now rewrite Hkv.
  Qed.

  Lemma kouts_dedges_other h k km l : km <> k -> kouts k (dedges_to h km l) = [].
  Proof.
    intros Hne. unfold kouts. apply flat_map_nil. intros x Hx. unfold dedges_to in Hx.
    apply in_flat_map in Hx. destruct Hx as (p & _ & Hx).
    destruct (keyof h (fst p)) as [kv|]; [|destruct Hx]. destruct Hx as [<-|[]].
    cbn [fst]. now rewrite (keqb_neq Hk).
  Qed.

  Lemma kins_dedges h k u km l :
    (forall p, In p l -> exists kv, keyof h (fst p) = Some kv /\ (kv = k <-> fst p = u)) ->
    kins k (dedges_to h km l) = map (fun e => (Some km, e)) (to_ u l).
  Proof.
    induction l as [|p l IH]; intros Hl; [reflexivity|].
    unfold dedges_to. cbn [flat_map]. fold (dedges_to h km l).
    destruct (Hl p (or_introl eq_refl)) as (kv & Hkv & Hiff). rewrite Hkv.
    unfold kins. cbn [app flat_map fst snd]. fold (kins k (dedges_to h km l)).
    rewrite IH by (intros q Hq; apply Hl; now right).
    unfold to_. cbn [filter]. destruct (Nat.eqb_spec (fst p) u) as [Hpu|Hpu].
    - apply Hiff in Hpu. subst kv. rewrite (keqb_rfl Hk). reflexivity.
    - rewrite (keqb_neq Hk); [reflexivity|]. intros Heq. apply Hpu. now apply Hiff.
  Qed.

  Lemma kouts_flat_map A k (G : A -> list (K * K * E)) (l : list A) :
    kouts k (flat_map G l) = flat_map (fun m => kouts k (G m)) l.
  Proof. apply flat_map_flat_map. Qed.

  Lemma kins_flat_map A k (G : A -> list (K * K * E)) (l : list A) :
    kins k (flat_map G l) = flat_map (fun m => kins k (G m)) l.
  Proof. apply flat_map_flat_map. Qed.

  Section Roundtrip.
    Variable h : heap.
    Variable g : graph K.
    Variable order : list K.
    Hypothesis HI : Inv h.
    Hypothesis HG : GraphOK h g.
    Hypothesis HC : ClosedOut h g.
    Hypothesis HO : OrderOK g order.

    Let ms := g_iter keqb g order.
    Let des := flat_map (dedges_of h) ms.

    Lemma ms_perm : Permutation ms (members g).
    Proof. unfold ms. eapply g_iter_perm; eauto. Qed.

    Lemma ms_nodup : NoDup ms.
    Proof.
      apply Permutation_NoDup with (l := members g); [apply Permutation_sym, ms_perm|].
      now apply members_nodup with (h := h).
    Qed.

    Lemma ms_in m : In m ms <-> In m (members g).
    Proof.
      split; apply Permutation_in; [apply ms_perm|apply Permutation_sym, ms_perm].
    Qed.

    Lemma member_key m : In m (members g) -> exists k, In (k, m) g /\ keyof h m = Some k.
    Proof.
      intros Hin. apply in_map_iff in Hin. destruct Hin as ([k m'] & Hm & Hin). cbn [snd] in Hm. subst m'.
      exists k. split; [exact Hin|]. now apply HG in Hin.
    Qed.

    Lemma pair_node k m : In (k, m) g -> exists v, nth_error (nodes h) m = Some (k, v).
    Proof.
      intros Hin. apply HG in Hin. destruct Hin as [Hkm _]. unfold keyof in Hkm.
      destruct (nth_error (nodes h) m) as [[k' v]|]; [|discriminate].
      cbn [option_map fst] in Hkm. injection Hkm as ->. now exists v.
    Qed.

    Lemma pair_unique k m m' : In (k, m) g -> In (k, m') g -> m = m'.
    Proof. destruct HG as [Hnd _]. now apply nodup_fst_inj. Qed.

    Lemma dnodes_in k v :
      In (k, v) (dnodes h ms) <-> exists m, In (k, m) g /\ nth_error (nodes h) m = Some (k, v).
    Proof.
      unfold dnodes. rewrite in_flat_map. split.
      - intros (m & Hm & Hin). destruct (nth_error (nodes h) m) as [kv|] eqn:Hn; [|destruct Hin].
        destruct Hin as [->|[]]. exists m. split; [|exact Hn].
        apply ms_in, member_key in Hm. destruct Hm as (k' & Hin & Hkey).
        unfold keyof in Hkey. rewrite Hn in Hkey. cbn [option_map fst] in Hkey. now injection Hkey as <-.
      - intros (m & Hin & Hn). exists m. split.
        + apply ms_in. unfold members. change m with (snd (k, m)). now apply in_map.
        + rewrite Hn. now left.
    Qed.

    Lemma dnodes_keys k : In k (map fst (dnodes h ms)) <-> g_contains keqb g k = true.
    Proof.
      rewrite (g_contains_true Hk). split.
      - intros Hin. apply in_map_iff in Hin. destruct Hin as ([k' v] & Hk' & Hin). cbn [fst] in Hk'. subst k'.
        apply dnodes_in in Hin. destruct Hin as (m & Hin & _). change k with (fst (k, m)). now apply in_map.
      - intros Hin. apply in_map_iff in Hin. destruct Hin as ([k' m] & Hk' & Hin). cbn [fst] in Hk'. subst k'.
        destruct (pair_node _ _ Hin) as [v Hn]. change k with (fst (k, v)). apply in_map.
        apply dnodes_in. now exists m.
    Qed.

    Lemma target_key m p : In m (members g) -> In p (outs h m) ->
      exists kv, In (kv, fst p) g /\ keyof h (fst p) = Some kv.
    Proof.
      intros Hm Hp. apply member_key. destruct p as [v e]. pose proof (HC m Hm) as H1. now apply H1 in Hp.
    Qed.

    Lemma dedges_in s t e : In (s, t, e) des -> g_contains keqb g s = true /\ g_contains keqb g t = true.
    Proof.
      unfold des. rewrite in_flat_map. intros (m & Hm & Hin). apply ms_in in Hm.
      destruct (member_key _ Hm) as (km & Hkm & Hkey). unfold dedges_of in Hin. rewrite Hkey in Hin.
      unfold dedges_to in Hin. apply in_flat_map in Hin. destruct Hin as (p & Hp & Hin).
      destruct (target_key _ _ Hm Hp) as (kv & Hkv & Hkeyv). rewrite Hkeyv in Hin.
      destruct Hin as [[= <- <- <-]|[]]. rewrite !(g_contains_true Hk). split.
      - change km with (fst (km, m)). now apply in_map.
      - change kv with (fst (kv, fst p)). now apply in_map.
    Qed.

    Lemma dedges_decl s t e : In (s, t, e) des ->
      In s (map fst (dnodes h ms)) /\ In t (map fst (dnodes h ms)).
    Proof. intros Hin. rewrite !dnodes_keys. now apply (dedges_in s t e). Qed.

    Lemma kouts_des k u : In (k, u) g -> kouts k des = keyed h (outs h u).
    Proof.
      intros Hin. assert (Hm : In u (members g)) by (change u with (snd (k, u)); now apply in_map).
      assert (Hku : keyof h u = Some k) by now apply HG in Hin.
      unfold des. rewrite kouts_flat_map.
      rewrite (@flat_map_single _ _ _ (fun x : nat => x) (fun m => kouts k (dedges_of h m)) ms u).
      - unfold dedges_of. rewrite Hku. apply kouts_dedges_same. intros p Hp.
        destruct (target_key _ _ Hm Hp) as (kv & _ & Hkv). now exists kv.
      - rewrite map_id. apply ms_nodup.
      - now apply ms_in.
      - intros m Hm' Hne. apply ms_in in Hm'. destruct (member_key _ Hm') as (km & Hkm & Hkey).
        unfold dedges_of. rewrite Hkey. apply kouts_dedges_other. intros ->. apply Hne.
        now apply pair_unique with (k := k).
    Qed.

    Lemma kins_des k u : ClosedIn h g -> In (k, u) g -> Permutation (kins k des) (keyed h (ins h u)).
    Proof.
      intros HCi Hin. assert (Hm : In u (members g)) by (change u with (snd (k, u)); now apply in_map).
      assert (Hku : keyof h u = Some k) by now apply HG in Hin.
      unfold des. rewrite kins_flat_map.
      rewrite (flat_map_ext_in _ (fun m => map (fun p => (keyof h (fst p), snd p)) (map (fun e => (m, e)) (to_ m (ins h u))))).
      - rewrite <- map_flat_map. unfold keyed. apply Permutation_map. apply group_perm; [apply ms_nodup|].
        intros [v e] Hp. cbn [fst]. apply ms_in. pose proof (HCi u Hm) as H2. now apply H2 in Hp.
      - intros m Hm'. apply ms_in in Hm'. destruct (member_key _ Hm') as (km & Hkm & Hkey).
        unfold dedges_of. rewrite Hkey, map_map. cbn [fst snd]. rewrite Hkey.
        destruct HI as (HM & _ & HInj). rewrite <- HM. apply kins_dedges. intros p Hp.
        destruct (target_key _ _ Hm' Hp) as (kv & _ & Hkv). exists kv. split; [exact Hkv|]. split.
        + intros ->. now apply HInj with (k := k).
        + intros Hpu. rewrite Hpu in Hkv. congruence.
    Qed.

    Lemma roundtrip_common :
      exists h' g', rebuild keqb (fst (decompose keqb h g order)) (snd (decompose keqb h g order)) = DeOk h' g' /\
        Inv h' /\ GraphOK h' g' /\
        (forall k, g_contains keqb g' k = g_contains keqb g k) /\
        (forall k u u', g_get keqb g k = Some u -> g_get keqb g' k = Some u' ->
           valof h' u' = valof h u /\
           keyed h' (outs h' u') = keyed h (outs h u) /\
           (ClosedIn h g -> Permutation (keyed h' (ins h' u')) (keyed h (ins h u)))).
    Proof.
      rewrite decompose_eq. cbn [fst snd]. fold ms. fold des.
      destruct (@rebuild_keyed (dnodes h ms) des dedges_decl) as (h' & g' & Hr & HI' & HG' & Hc & Hget).
      exists h', g'. split; [exact Hr|]. split; [exact HI'|]. split; [exact HG'|]. split.
      - intros k. apply bool_eq_iff. rewrite Hc. apply dnodes_keys.
      - intros k u u' Hu Hu'. apply (g_get_some_in Hk) in Hu.
        destruct (Hget k u' Hu') as ((v & Hv & Hval) & Ho & Hi). split; [|split].
        + rewrite Hval. apply dnodes_in in Hv. destruct Hv as (m & Hm & Hn).
          rewrite (pair_unique _ _ _ Hu Hm). unfold valof. now rewrite Hn.
        + rewrite Ho. now apply kouts_des.
        + intros HCi. rewrite Hi. now apply kins_des.
    Qed.
  End Roundtrip.

  (* ---------------- the required theorems ---------------- *)
  (* NOTE: the hypothesis [Full] (third premise) is added: see rebuild_nodes_needs_full *)
  Theorem rebuild_nodes_spec : forall l h g, GraphOK h g -> Inv h ->
    (forall w k, keyof h w = Some k -> g_contains keqb g k = true) ->
    let r := rebuild_nodes keqb h g l in
    GraphOK (fst r) (snd r) /\ Inv (fst r) /\
    (forall k, g_contains keqb (snd r) k = true <-> (g_contains keqb g k = true \/ In k (map fst l))) /\
    (forall k u, g_get keqb g k = Some u -> g_get keqb (snd r) k = Some u) /\
    (forall w, w < size h -> outs (fst r) w = outs h w /\ ins (fst r) w = ins h w /\ nth_error (nodes (fst r)) w = nth_error (nodes h) w) /\
    (forall w, size h <= w -> outs (fst r) w = [] /\ ins (fst r) w = []).
  Proof.
    intros l h g HG HI HF r. subst r.
    destruct (rebuild_nodes_inv l HG HI HF) as (HG' & HI' & _).
    destruct (rebuild_nodes_mono l h g) as (H1 & H2 & H3 & H4 & _).
    split; [exact HG'|]. split; [exact HI'|]. split; [exact H1|]. split; [exact H2|]. split.
    - intros w Hw. destruct (H3 w) as [Ho Hi]. split; [exact Ho|]. split; [exact Hi|]. now apply H4.
    - intros w Hw. destruct (H3 w) as [-> ->]. destruct HI as (_ & (H0 & _) & _). now apply H0.
  Qed.

  Theorem rebuild_nodes_first_wins : forall l h g,
    let r := rebuild_nodes keqb h g l in
    forall k, g_contains keqb g k = false -> forall l1 v l2, l = l1 ++ (k, v) :: l2 -> ~ In k (map fst l1) ->
      exists u, g_get keqb (snd r) k = Some u /\ nth_error (nodes (fst r)) u = Some (k, v).
  Proof.
    intros l h g r k Hc l1 v l2 -> Hn. subst r. now apply rebuild_nodes_first.
  Qed.

  Theorem rebuild_edges_spec : forall es h g, GraphOK h g -> Inv h ->
    match rebuild_edges keqb h g es with
    | DeOk h' g' => g' = g /\ Inv h' /\ nodes h' = nodes h /\ (forall s t e, In (s, t, e) es -> g_contains keqb g s = true /\ g_contains keqb g t = true) /\
         (forall u, outs h' u = outs h u ++ flat_map (fun x => match x with (s, t, e) => match g_get keqb g s, g_get keqb g t with Some a, Some b => if Nat.eqb a u then [(b, e)] else [] | _, _ => [] end end) es) /\
         (forall v, ins h' v = ins h v ++ flat_map (fun x => match x with (s, t, e) => match g_get keqb g s, g_get keqb g t with Some a, Some b => if Nat.eqb b v then [(a, e)] else [] | _, _ => [] end end) es)
    | DeMissing _ _ k => exists es1 s t e es2, es = es1 ++ (s, t, e) :: es2 /\
         (forall s' t' e', In (s', t', e') es1 -> g_contains keqb g s' = true /\ g_contains keqb g t' = true) /\
         ((g_contains keqb g s = false /\ k = s) \/ (g_contains keqb g s = true /\ g_contains keqb g t = false /\ k = t))
    end.
  Proof. exact rebuild_edges_spec_. Qed.

  Theorem rebuild_ok_inv : forall ns es h' g', rebuild keqb ns es = DeOk h' g' -> Inv h' /\ GraphOK h' g' /\
    (forall k, g_contains keqb g' k = true <-> In k (map fst ns)) /\
    (forall s t e, In (s, t, e) es -> In s (map fst ns) /\ In t (map fst ns)).
  Proof.
    intros ns es h' g'. rewrite rebuild_unfold.
    destruct (rebuild_nodes_start ns) as (HG & HI & Hc).
    pose proof (rebuild_edges_spec_ es HG HI) as HE. intros Hr. rewrite Hr in HE.
    destruct HE as (-> & HI' & Hn & Hes & _). split; [exact HI'|]. split; [|split].
    - now apply graphok_nodes with (h := fst (rebuild_nodes keqb empty_heap [] ns)).
    - exact Hc.
    - intros s t e Hin. destruct (Hes _ _ _ Hin) as [H1 H2]. now rewrite <- !Hc.
  Qed.

  Theorem rebuild_err_iff : forall ns es, (exists k, rebuild keqb ns es = DeMissing V E k) <->
    (exists s t e, In (s, t, e) es /\ (~ In s (map fst ns) \/ ~ In t (map fst ns))).
  Proof.
    intros ns es. rewrite rebuild_unfold.
    destruct (rebuild_nodes_start ns) as (HG & HI & Hc).
    pose proof (rebuild_edges_spec_ es HG HI) as HE. split.
    - intros [k Hr]. rewrite Hr in HE. destruct HE as (es1 & s & t & e & es2 & -> & _ & Hbad).
      exists s, t, e. split; [apply in_or_app; right; now left|].
      destruct Hbad as [[H _]|(_ & H & _)]; [left|right]; rewrite <- Hc, H; discriminate.
    - intros (s & t & e & Hin & Hbad).
      destruct (rebuild_edges keqb _ _ es) as [h' g'|k]; [|now exists k]. exfalso.
      destruct HE as (_ & _ & _ & Hes & _). destruct (Hes _ _ _ Hin) as [H1 H2].
      apply Hc in H1. apply Hc in H2. tauto.
  Qed.

  (* "whose nodes and edges all come from the document", for rebuild / deserialize themselves (not for the helpers):
     every node of the result is a (key, value) pair of the document's node list, every adjacency entry of the result
     is an edge triple of the document's edge list between the nodes bound to its two keys *)
  Lemma rebuild_nodes_from_doc l : forall h g u kv,
    nth_error (nodes (fst (rebuild_nodes keqb h g l))) u = Some kv -> nth_error (nodes h) u = Some kv \/ In kv l.
  Proof.
    induction l as [|[k v] r IH]; intros h g u kv Hn; cbn [rebuild_nodes] in Hn.
    - left. exact Hn.
    - destruct (g_contains keqb g k).
      + destruct (IH h g u kv Hn) as [H|H]; [left; exact H|right; right; exact H].
      + destruct (IH _ _ u kv Hn) as [H|H]; [|right; right; exact H].
        unfold alloc in H. cbn [nodes] in H.
        destruct (Nat.lt_ge_cases u (length (nodes h))) as [Hlt|Hge].
        * rewrite nth_error_app1 in H by exact Hlt. left. exact H.
        * rewrite nth_error_app2 in H by exact Hge. destruct (u - length (nodes h)) as [|n]; cbn in H.
          -- right. left. congruence.
          -- destruct n; discriminate H.
  Qed.

  Theorem rebuild_all_from_document : forall ns es h' g', rebuild keqb ns es = DeOk h' g' ->
    (forall u kv, nth_error (nodes h') u = Some kv -> In kv ns) /\
    (forall u v e, In (v, e) (outs h' u) -> exists s t, In (s, t, e) es /\ g_get keqb g' s = Some u /\ g_get keqb g' t = Some v) /\
    (forall u v e, In (u, e) (ins h' v) -> exists s t, In (s, t, e) es /\ g_get keqb g' s = Some u /\ g_get keqb g' t = Some v).
  Proof.
    intros ns es h' g'. rewrite rebuild_unfold.
    destruct (rebuild_nodes_start ns) as (HG & HI & Hc).
    pose proof (rebuild_edges_spec_ es HG HI) as HE. intros Hr. rewrite Hr in HE.
    destruct HE as (-> & _ & Hn & _ & Ho & Hi).
    destruct (rebuild_nodes_mono ns (@empty_heap K V E) []) as (_ & _ & H3 & _).
    split; [|split].
    - intros u kv Hu. rewrite Hn in Hu. destruct (rebuild_nodes_from_doc ns _ _ _ Hu) as [H|H]; [|exact H].
      cbn in H. destruct u; discriminate H.
    - intros u v e Hin. rewrite Ho in Hin. destruct (H3 u) as [Hou _]. rewrite Hou in Hin. cbn [empty_heap outs app] in Hin.
      apply in_flat_map in Hin. destruct Hin as ([[s t] e'] & Hes & Hx). unfold out_step in Hx.
      destruct (g_get keqb (snd (rebuild_nodes keqb empty_heap [] ns)) s) as [a|] eqn:Ha; [|destruct Hx].
      destruct (g_get keqb (snd (rebuild_nodes keqb empty_heap [] ns)) t) as [b|] eqn:Hb; [|destruct Hx].
      destruct (Nat.eqb_spec a u) as [->|]; [|destruct Hx]. destruct Hx as [Hx|[]]. inversion Hx; subst.
      exists s, t. split; [exact Hes|]. split; assumption.
    - intros u v e Hin. rewrite Hi in Hin. destruct (H3 v) as [_ Hiv]. rewrite Hiv in Hin. cbn [empty_heap ins app] in Hin.
      apply in_flat_map in Hin. destruct Hin as ([[s t] e'] & Hes & Hx). unfold in_step in Hx.
      destruct (g_get keqb (snd (rebuild_nodes keqb empty_heap [] ns)) s) as [a|] eqn:Ha; [|destruct Hx].
      destruct (g_get keqb (snd (rebuild_nodes keqb empty_heap [] ns)) t) as [b|] eqn:Hb; [|destruct Hx].
      destruct (Nat.eqb_spec b v) as [->|]; [|destruct Hx]. destruct Hx as [Hx|[]]. inversion Hx; subst.
      exists s, t. split; [exact Hes|]. split; assumption.
  Qed.

  Theorem deserialize_all_from_document : forall dk dv de doc h g,
    deserialize keqb dk dv de doc = DOk h g ->
    exists ns es, decode_doc dk dv de doc = Some (ns, es) /\
      (forall u kv, nth_error (nodes h) u = Some kv -> In kv ns) /\
      (forall u v e, In (v, e) (outs h u) -> exists s t, In (s, t, e) es /\ g_get keqb g s = Some u /\ g_get keqb g t = Some v).
  Proof.
    intros dk dv de doc h g. unfold deserialize. destruct (decode_doc dk dv de doc) as [[n e]|]; [|discriminate].
    destruct (rebuild keqb n e) as [h2 g2|k] eqn:Hr; [|discriminate]. intros Hd. inversion Hd; subst.
    exists n, e. split; [reflexivity|]. destruct (rebuild_all_from_document _ _ Hr) as (H1 & H2 & _). split; assumption.
  Qed.

  Theorem deserialize_total : forall dk dv de doc,
    (deserialize keqb dk dv de doc = DErr K V E) \/
    (exists h g, deserialize keqb dk dv de doc = DOk h g /\ Inv h /\ GraphOK h g).
  Proof.
    intros dk dv de doc. unfold deserialize. destruct (decode_doc dk dv de doc) as [[n e]|]; [|now left].
    destruct (rebuild keqb n e) as [h g|k] eqn:Hr; [|now left]. right. exists h, g.
    apply rebuild_ok_inv in Hr. tauto.
  Qed.
  Theorem roundtrip_directed : forall h g order, Inv h -> GraphOK h g -> ClosedOut h g -> OrderOK g order ->
    exists h' g', rebuild keqb (fst (decompose keqb h g order)) (snd (decompose keqb h g order)) = DeOk h' g' /\ Inv h' /\ GraphOK h' g' /\
      (forall k, g_contains keqb g' k = g_contains keqb g k) /\
      (forall k u u', g_get keqb g k = Some u -> g_get keqb g' k = Some u' ->
         valof h' u' = valof h u /\
         map (fun p => (keyof h' (fst p), snd p)) (outs h' u') = map (fun p => (keyof h (fst p), snd p)) (outs h u)).
  Proof.
    intros h g order HI HG HC HO.
    destruct (roundtrip_common HI HG HC HO) as (h' & g' & Hr & HI' & HG' & Hc & Hget).
    exists h', g'. split; [exact Hr|]. split; [exact HI'|]. split; [exact HG'|]. split; [exact Hc|].
    intros k u u' Hu Hu'. destruct (Hget k u u' Hu Hu') as (H1 & H2 & _). split; [exact H1|exact H2].
  Qed.

  Theorem roundtrip_undirected : forall h g order, Inv h -> GraphOK h g -> Closed h g -> OrderOK g order ->
    exists h' g', rebuild keqb (fst (decompose keqb h g order)) (snd (decompose keqb h g order)) = DeOk h' g' /\ Inv h' /\ GraphOK h' g' /\
      (forall k, g_contains keqb g' k = g_contains keqb g k) /\
      (forall k u u', g_get keqb g k = Some u -> g_get keqb g' k = Some u' ->
         valof h' u' = valof h u /\
         Permutation (map (fun p => (keyof h' (fst p), snd p)) (outs h' u' ++ ins h' u')) (map (fun p => (keyof h (fst p), snd p)) (outs h u ++ ins h u))).
  Proof.
    intros h g order HI HG HC HO.
    assert (HCo : ClosedOut h g) by (intros u Hu v e Hin; destruct (HC u Hu) as [H1 _]; now apply H1 in Hin).
    assert (HCi : ClosedIn h g) by (intros u Hu v e Hin; destruct (HC u Hu) as [_ H2]; now apply H2 in Hin).
    destruct (roundtrip_common HI HG HCo HO) as (h' & g' & Hr & HI' & HG' & Hc & Hget).
    exists h', g'. split; [exact Hr|]. split; [exact HI'|]. split; [exact HG'|]. split; [exact Hc|].
    intros k u u' Hu Hu'. destruct (Hget k u u' Hu Hu') as (H1 & H2 & H3). split; [exact H1|].
    rewrite !map_app. apply Permutation_app; [|exact (H3 HCi)]. unfold keyed in H2. rewrite H2. apply Permutation_refl.
  Qed.
End SerdeProof.

Print Assumptions rebuild_nodes_spec.
Print Assumptions rebuild_nodes_first_wins.
Print Assumptions rebuild_edges_spec.
Print Assumptions rebuild_ok_inv.
Print Assumptions rebuild_err_iff.
Print Assumptions deserialize_total.
Print Assumptions roundtrip_directed.
Print Assumptions roundtrip_undirected.
