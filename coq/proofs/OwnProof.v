(* OwnProof.v — ownership theorems for model/Own.v (C19): strong counts, release-at-zero,
   no double release, no leak once all objects are dropped, heap (adjacency) irrelevance. *)
From Gdsl.Model Require Import Own.
Require Import List Arith Bool Lia.
Import ListNotations.

(* ---------- count_id / strong ---------- *)

Lemma count_id_app : forall u a b, count_id u (a ++ b) = count_id u a + count_id u b.
Proof.
  intros u a b. induction a as [|x r IH]; cbn [count_id app]; lia.
Qed.

Lemma count_id_pos : forall u l, count_id u l > 0 <-> In u l.
Proof.
  intros u l. induction l as [|x r IH]; cbn [count_id In].
  - split; [lia | tauto].
  - destruct (Nat.eqb_spec x u) as [He|Hne]; split; intro H.
    + left; exact He.
    + lia.
    + right. apply IH. lia.
    + destruct H as [H|H]; [contradiction|]. apply IH in H. lia.
Qed.

Lemma count_id_zero : forall u l, count_id u l = 0 <-> ~ In u l.
Proof. intros u l. rewrite <- count_id_pos. lia. Qed.

Lemma strong_nil : forall u, strong [] u = 0.
Proof. reflexivity. Qed.

Lemma strong_cons : forall s o os u, strong ((s, o) :: os) u = count_id u o + strong os u.
Proof. intros s o os u. unfold strong. cbn [map concat snd]. apply count_id_app. Qed.

Lemma strong_app : forall a b u, strong (a ++ b) u = strong a u + strong b u.
Proof. intros a b u. unfold strong. rewrite map_app, concat_app, count_id_app. reflexivity. Qed.

(* ---------- existsb / dedup / newly_released ---------- *)

Lemma existsb_eqb_in : forall u l, existsb (Nat.eqb u) l = true <-> In u l.
Proof.
  intros u l. rewrite existsb_exists. split.
  - intros [x [Hx He]]. apply Nat.eqb_eq in He. subst x. exact Hx.
  - intro H. exists u. split; [exact H | apply Nat.eqb_refl].
Qed.

Lemma existsb_eqb_nin : forall u l, existsb (Nat.eqb u) l = false <-> ~ In u l.
Proof.
  intros u l. rewrite <- existsb_eqb_in. symmetry. apply not_true_iff_false.
Qed.

Lemma dedup_in : forall u l, In u (dedup l) <-> In u l.
Proof.
  intros u l. induction l as [|x r IH]; cbn [dedup].
  - tauto.
  - destruct (existsb (Nat.eqb x) r) eqn:Hx.
    + apply existsb_eqb_in in Hx. rewrite IH. cbn [In]. split; [tauto|].
      intros [He|H]; [subst; exact Hx | exact H].
    + cbn [In]. rewrite IH. tauto.
Qed.

Lemma dedup_nodup : forall l, NoDup (dedup l).
Proof.
  intro l. induction l as [|x r IH]; cbn [dedup].
  - constructor.
  - destruct (existsb (Nat.eqb x) r) eqn:Hx; [exact IH|].
    constructor; [|exact IH]. rewrite dedup_in. apply existsb_eqb_nin. exact Hx.
Qed.

Lemma newly_in : forall os al c u,
  In u (newly_released os al c) <-> (In u c /\ strong os u = 0 /\ ~ In u al).
Proof.
  intros os al c u. unfold newly_released.
  rewrite filter_In, dedup_in, andb_true_iff, Nat.eqb_eq, negb_true_iff, existsb_eqb_nin. tauto.
Qed.

Lemma newly_nodup : forall os al c, NoDup (newly_released os al c).
Proof. intros os al c. unfold newly_released. apply NoDup_filter, dedup_nodup. Qed.

Lemma nodup_app : forall (a b : list nat),
  NoDup a -> NoDup b -> (forall x, In x a -> ~ In x b) -> NoDup (a ++ b).
Proof.
  intros a b Ha Hb Hd. induction a as [|x r IH]; cbn [app]; [exact Hb|].
  inversion Ha as [|x' r' Hx Hr]; subst. constructor.
  - rewrite in_app_iff. intros [H|H]; [exact (Hx H)|]. exact (Hd x (or_introl eq_refl) H).
  - apply IH; [exact Hr|]. intros y Hy. apply Hd. right. exact Hy.
Qed.

(* ---------- get_obj / del_obj ---------- *)

Lemma get_obj_cons : forall s' o os s,
  get_obj ((s', o) :: os) s = if Nat.eqb s' s then Some o else get_obj os s.
Proof. intros s' o os s. unfold get_obj. cbn [find fst]. destruct (Nat.eqb s' s); reflexivity. Qed.

Lemma del_obj_cons : forall s' o os s,
  del_obj ((s', o) :: os) s = if Nat.eqb s' s then del_obj os s else (s', o) :: del_obj os s.
Proof. intros s' o os s. unfold del_obj. cbn [filter fst]. destruct (Nat.eqb s' s); reflexivity. Qed.

Lemma del_obj_not_in : forall os s, ~ In s (map fst (del_obj os s)).
Proof.
  intros os s H. apply in_map_iff in H as [[s' o] [He Hin]]. unfold del_obj in Hin.
  apply filter_In in Hin as [_ Hn]. cbn [fst] in He, Hn. subst s'.
  rewrite Nat.eqb_refl in Hn. discriminate Hn.
Qed.

Lemma del_obj_fst_incl : forall os s x, In x (map fst (del_obj os s)) -> In x (map fst os).
Proof.
  intros os s x. rewrite !in_map_iff. intros [p [He Hin]]. exists p. split; [exact He|].
  unfold del_obj in Hin. apply filter_In in Hin. tauto.
Qed.

Lemma del_obj_nodup : forall os s, NoDup (map fst os) -> NoDup (map fst (del_obj os s)).
Proof.
  intros os s. induction os as [|[s' o] os IH]; intro H; [constructor|].
  rewrite del_obj_cons. cbn [map fst] in H. inversion H as [|x r Hx Hr]; subst.
  destruct (Nat.eqb s' s); [exact (IH Hr)|]. cbn [map fst]. constructor; [|exact (IH Hr)].
  intro Hin. apply del_obj_fst_incl in Hin. exact (Hx Hin).
Qed.

Lemma get_none_not_in : forall os s, get_obj os s = None -> ~ In s (map fst os).
Proof.
  intros os s. induction os as [|[s' o] os IH]; intro H.
  - cbn [map In]. tauto.
  - rewrite get_obj_cons in H. destruct (Nat.eqb_spec s' s) as [He|Hne]; [discriminate H|].
    cbn [map fst In]. intros [He|Hin]; [exact (Hne He) | exact (IH H Hin)].
Qed.

Lemma del_obj_absent : forall os s, ~ In s (map fst os) -> del_obj os s = os.
Proof.
  intros os s. induction os as [|[s' o] os IH]; intro H; [reflexivity|].
  rewrite del_obj_cons. cbn [map fst In] in H. destruct (Nat.eqb_spec s' s) as [He|Hne].
  - exfalso. apply H. left. exact He.
  - f_equal. apply IH. tauto.
Qed.

Lemma strong_del_le : forall os s u, strong (del_obj os s) u <= strong os u.
Proof.
  intros os s u. induction os as [|[s' o] os IH]; [apply le_n|].
  rewrite del_obj_cons, strong_cons. destruct (Nat.eqb s' s); rewrite ?strong_cons; lia.
Qed.

Lemma strong_del_split : forall os s o u,
  NoDup (map fst os) -> get_obj os s = Some o ->
  strong os u = strong (del_obj os s) u + count_id u o.
Proof.
  intros os s o u. induction os as [|[s' o'] os IH]; intros Hnd Hg; [discriminate Hg|].
  rewrite get_obj_cons in Hg. rewrite del_obj_cons, strong_cons.
  cbn [map fst] in Hnd. inversion Hnd as [|x r Hx Hr]; subst.
  destruct (Nat.eqb_spec s' s) as [He|Hne].
  - inversion Hg; subst. rewrite del_obj_absent by exact Hx. lia.
  - rewrite strong_cons, (IH Hr Hg). lia.
Qed.

Lemma get_some_count : forall os s o u, get_obj os s = Some o -> count_id u o <= strong os u.
Proof.
  intros os s o u. induction os as [|[s' o'] os IH]; intro Hg; [discriminate Hg|].
  rewrite get_obj_cons in Hg. rewrite strong_cons. destruct (Nat.eqb s' s).
  - inversion Hg; subst. lia.
  - specialize (IH Hg). lia.
Qed.

(* the previous content of a slot ([] when empty) *)
Definition old_of (os : objs) (s : nat) : list nat :=
  match get_obj os s with Some l => l | None => [] end.

Lemma strong_old_split : forall os s u,
  NoDup (map fst os) -> strong os u = strong (del_obj os s) u + count_id u (old_of os s).
Proof.
  intros os s u HS. unfold old_of. destruct (get_obj os s) as [o|] eqn:Hg.
  - apply strong_del_split; assumption.
  - rewrite del_obj_absent by (apply get_none_not_in; exact Hg). cbn [count_id]. lia.
Qed.

(* ---------- state-level lemmas ---------- *)

Section OwnProof.
  Variables K V E : Type.
  Notation ost := (ostate K V E).

  Definition Slots (st : ost) : Prop := NoDup (map fst (o_objs st)).
  Definition Rel0 (st : ost) : Prop := forall u, In u (o_released st) -> strong (o_objs st) u = 0.
  Definition OwnOK (st : ost) : Prop := Slots st /\ NoDup (o_released st) /\ Rel0 st.

  Definition tracked (st : ost) (u : nat) : Prop := strong (o_objs st) u > 0 \/ In u (o_released st).

  (* --- drop_slot --- *)

  Lemma drop_none : forall (st : ost) s, get_obj (o_objs st) s = None -> drop_slot st s = (st, []).
  Proof. intros st s H. unfold drop_slot. rewrite H. reflexivity. Qed.

  Lemma drop_some : forall (st : ost) s o, get_obj (o_objs st) s = Some o ->
    drop_slot st s =
      (mkO (o_heap st) (del_obj (o_objs st) s)
           (o_released st ++ newly_released (del_obj (o_objs st) s) (o_released st) o),
       newly_released (del_obj (o_objs st) s) (o_released st) o).
  Proof. intros st s o H. unfold drop_slot. rewrite H. reflexivity. Qed.

  Lemma drop_released : forall (st : ost) s,
    o_released (fst (drop_slot st s)) = o_released st ++ snd (drop_slot st s).
  Proof.
    intros st s. destruct (get_obj (o_objs st) s) as [o|] eqn:Hg.
    - rewrite (drop_some _ _ _ Hg). reflexivity.
    - rewrite (drop_none _ _ Hg). cbn [fst snd]. rewrite app_nil_r. reflexivity.
  Qed.

  Lemma drop_strong_le : forall (st : ost) s u,
    strong (o_objs (fst (drop_slot st s))) u <= strong (o_objs st) u.
  Proof.
    intros st s u. destruct (get_obj (o_objs st) s) as [o|] eqn:Hg.
    - rewrite (drop_some _ _ _ Hg). cbn [fst o_objs]. apply strong_del_le.
    - rewrite (drop_none _ _ Hg). apply le_n.
  Qed.

  Lemma drop_slots : forall (st : ost) s, Slots st -> Slots (fst (drop_slot st s)).
  Proof.
    intros st s H. unfold Slots in *. destruct (get_obj (o_objs st) s) as [o|] eqn:Hg.
    - rewrite (drop_some _ _ _ Hg). cbn [fst o_objs]. apply del_obj_nodup. exact H.
    - rewrite (drop_none _ _ Hg). exact H.
  Qed.

  Lemma drop_snd_in : forall (st : ost) s u, In u (snd (drop_slot st s)) ->
    strong (o_objs (fst (drop_slot st s))) u = 0 /\ ~ In u (o_released st).
  Proof.
    intros st s u Hu. destruct (get_obj (o_objs st) s) as [o|] eqn:Hg.
    - rewrite (drop_some _ _ _ Hg) in *. cbn [fst snd o_objs] in *. apply newly_in in Hu. tauto.
    - rewrite (drop_none _ _ Hg) in Hu. destruct Hu.
  Qed.

  Lemma drop_snd_nodup : forall (st : ost) s, NoDup (snd (drop_slot st s)).
  Proof.
    intros st s. destruct (get_obj (o_objs st) s) as [o|] eqn:Hg.
    - rewrite (drop_some _ _ _ Hg). cbn [snd]. apply newly_nodup.
    - rewrite (drop_none _ _ Hg). constructor.
  Qed.

  (* characterisation of the released set of a drop, assuming only slot uniqueness *)
  Lemma drop_exact : forall (st : ost) s, Slots st -> forall u,
    In u (snd (drop_slot st s)) <->
    (strong (o_objs st) u > 0 /\ strong (o_objs (fst (drop_slot st s))) u = 0 /\ ~ In u (o_released st)).
  Proof.
    intros st s HS u. destruct (get_obj (o_objs st) s) as [o|] eqn:Hg.
    - rewrite (drop_some _ _ _ Hg). cbn [fst snd o_objs]. rewrite newly_in.
      pose proof (strong_del_split _ _ _ u HS Hg) as Hsp. rewrite <- (count_id_pos u o).
      split; intros [H1 [H2 H3]]; repeat split; try assumption; lia.
    - rewrite (drop_none _ _ Hg). cbn [fst snd In]. lia.
  Qed.

  Lemma drop_released_nodup : forall (st : ost) s,
    NoDup (o_released st) -> NoDup (o_released (fst (drop_slot st s))).
  Proof.
    intros st s H. rewrite drop_released. apply nodup_app; [exact H | apply drop_snd_nodup |].
    intros x Hx Hin. apply drop_snd_in in Hin. tauto.
  Qed.

  Lemma drop_rel0 : forall (st : ost) s, Rel0 st -> Rel0 (fst (drop_slot st s)).
  Proof.
    intros st s H u Hu. rewrite drop_released, in_app_iff in Hu. destruct Hu as [Hu|Hu].
    - pose proof (drop_strong_le st s u) as Hle. rewrite (H u Hu) in Hle. lia.
    - apply drop_snd_in in Hu. tauto.
  Qed.

  Lemma drop_tracked : forall (st : ost) s u, Slots st ->
    (tracked (fst (drop_slot st s)) u <-> tracked st u).
  Proof.
    intros st s u HS. unfold tracked. rewrite drop_released, in_app_iff, (drop_exact st s HS u).
    pose proof (drop_strong_le st s u) as Hle.
    destruct (in_dec Nat.eq_dec u (o_released st)) as [Hin|Hnin]; [tauto|].
    assert (Hf : In u (o_released st) <-> False) by tauto. rewrite !Hf. lia.
  Qed.

  (* --- put_slot (store the new object, then drop the slot's previous content) --- *)

  Lemma put_objs : forall (st : ost) s o,
    o_objs (fst (put_slot st s o)) = del_obj (o_objs st) s ++ [(s, o)].
  Proof. reflexivity. Qed.

  Lemma put_snd : forall (st : ost) s o,
    snd (put_slot st s o) =
    newly_released (del_obj (o_objs st) s ++ [(s, o)]) (o_released st) (old_of (o_objs st) s).
  Proof. reflexivity. Qed.

  Lemma put_released : forall (st : ost) s o,
    o_released (fst (put_slot st s o)) = o_released st ++ snd (put_slot st s o).
  Proof. reflexivity. Qed.

  Lemma put_strong : forall (st : ost) s o u,
    strong (o_objs (fst (put_slot st s o))) u = strong (del_obj (o_objs st) s) u + count_id u o.
  Proof. intros st s o u. rewrite put_objs, strong_app, strong_cons, strong_nil. lia. Qed.

  Lemma put_snd_in : forall (st : ost) s o u, In u (snd (put_slot st s o)) <->
    (In u (old_of (o_objs st) s) /\ strong (o_objs (fst (put_slot st s o))) u = 0 /\ ~ In u (o_released st)).
  Proof. intros st s o u. rewrite put_snd, newly_in, put_objs. tauto. Qed.

  Lemma put_exact : forall (st : ost) s o, Slots st -> forall u,
    In u (snd (put_slot st s o)) <->
    (strong (o_objs st) u > 0 /\ strong (o_objs (fst (put_slot st s o))) u = 0 /\ ~ In u (o_released st)).
  Proof.
    intros st s o HS u. rewrite put_snd_in, put_strong, <- (count_id_pos u (old_of (o_objs st) s)).
    pose proof (strong_old_split (o_objs st) s u HS) as Hsp.
    split; intros [H1 [H2 H3]]; repeat split; try assumption; lia.
  Qed.

  Lemma put_slots : forall (st : ost) s o, Slots st -> Slots (fst (put_slot st s o)).
  Proof.
    intros st s o H. unfold Slots. rewrite put_objs, map_app. cbn [map fst]. apply nodup_app.
    - apply del_obj_nodup. exact H.
    - constructor; [intros []|constructor].
    - intros x Hx [He|[]]. subst x. exact (del_obj_not_in _ _ Hx).
  Qed.

  Lemma put_released_nodup : forall (st : ost) s o,
    NoDup (o_released st) -> NoDup (o_released (fst (put_slot st s o))).
  Proof.
    intros st s o H. rewrite put_released. apply nodup_app; [exact H | rewrite put_snd; apply newly_nodup |].
    intros x Hx Hin. apply put_snd_in in Hin. tauto.
  Qed.

  Lemma is_released_false : forall (st : ost) u, is_released st u = false <-> ~ In u (o_released st).
  Proof. intros st u. unfold is_released. apply existsb_eqb_nin. Qed.

  Lemma put_rel0 : forall (st : ost) s o, Rel0 st -> legal st (OpPut s o) -> Rel0 (fst (put_slot st s o)).
  Proof.
    intros st s o H HL u Hu. rewrite put_released, in_app_iff in Hu. destruct Hu as [Hu|Hu].
    - rewrite put_strong. pose proof (strong_del_le (o_objs st) s u) as Hle. rewrite (H u Hu) in Hle.
      assert (Hc : count_id u o = 0); [|lia].
      apply count_id_zero. intro Hin. cbn [legal] in HL. rewrite Forall_forall in HL.
      apply (proj1 (is_released_false st u) (HL u Hin)). exact Hu.
    - apply put_snd_in in Hu. tauto.
  Qed.

  Lemma put_tracked : forall (st : ost) s o u, Slots st ->
    (tracked (fst (put_slot st s o)) u <-> (tracked st u \/ In u o)).
  Proof.
    intros st s o u HS. unfold tracked. rewrite put_released, in_app_iff, put_snd_in, put_strong.
    rewrite <- !count_id_pos. pose proof (strong_old_split (o_objs st) s u HS) as Hsp. lia.
  Qed.

  (* --- steps and runs --- *)

  Lemma step_slots : forall (st : ost) o, Slots st -> Slots (ostep st o).
  Proof.
    intros st [s owned|s] H; cbn [ostep]; [apply put_slots | apply drop_slots]; exact H.
  Qed.

  Lemma step_released_nodup : forall (st : ost) o,
    NoDup (o_released st) -> NoDup (o_released (ostep st o)).
  Proof.
    intros st [s owned|s] H; cbn [ostep]; [apply put_released_nodup | apply drop_released_nodup]; exact H.
  Qed.

  Lemma step_rel0 : forall (st : ost) o, Rel0 st -> legal st o -> Rel0 (ostep st o).
  Proof.
    intros st [s owned|s] H HL; cbn [ostep]; [apply put_rel0; assumption | apply drop_rel0; exact H].
  Qed.

  Lemma step_tracked : forall (st : ost) o u, Slots st ->
    (tracked (ostep st o) u <-> (tracked st u \/ In u (put_ids [o]))).
  Proof.
    intros st [s owned|s] u HS; cbn [ostep put_ids].
    - rewrite app_nil_r. apply put_tracked. exact HS.
    - rewrite (drop_tracked st s u HS). cbn [In]. tauto.
  Qed.

  Lemma run_tracked : forall ops (st : ost) u, Slots st ->
    (tracked (orun st ops) u <-> (tracked st u \/ In u (put_ids ops))).
  Proof.
    intro ops. induction ops as [|o r IH]; intros st u HS; cbn [orun].
    - cbn [put_ids In]. tauto.
    - rewrite (IH _ u (step_slots st o HS)), (step_tracked st o u HS).
      destruct o as [s owned|s]; cbn [put_ids]; rewrite ?app_nil_r, ?in_app_iff; cbn [In]; tauto.
  Qed.

  Lemma run_slots : forall ops (st : ost), Slots st -> Slots (orun st ops).
  Proof.
    intro ops. induction ops as [|o r IH]; intros st H; cbn [orun]; [exact H|].
    apply IH, step_slots, H.
  Qed.

  Lemma run_released_nodup : forall ops (st : ost),
    NoDup (o_released st) -> NoDup (o_released (orun st ops)).
  Proof.
    intro ops. induction ops as [|o r IH]; intros st H; cbn [orun]; [exact H|].
    apply IH, step_released_nodup, H.
  Qed.

  (* ---------- final theorems ---------- *)

  Theorem own_init_ok : OwnOK (@o_init K V E).
  Proof.
    unfold OwnOK, Slots, Rel0. cbn [o_init o_objs o_released map]. split; [constructor|].
    split; [constructor|]. intros u [].
  Qed.

  Theorem own_step_ok : forall (st : ost) o, OwnOK st -> legal st o -> OwnOK (ostep st o).
  Proof.
    intros st o [HS [HN HR]] HL. repeat split.
    - apply step_slots; exact HS.
    - apply step_released_nodup; exact HN.
    - apply step_rel0; assumption.
  Qed.

  Theorem own_run_ok : forall ops (st : ost), OwnOK st -> legal_run st ops -> OwnOK (orun st ops).
  Proof.
    intro ops. induction ops as [|o r IH]; intros st H HL; cbn [orun]; [exact H|].
    cbn [legal_run] in HL. destruct HL as [HL1 HL2].
    apply IH; [apply own_step_ok; assumption | exact HL2].
  Qed.

  (* slot uniqueness needs no legality at all *)
  Theorem own_slots_run : forall ops, Slots (orun (@o_init K V E) ops).
  Proof. intro ops. apply run_slots. destruct own_init_ok as [H _]. exact H. Qed.

  (* 1 *)
  Theorem own_released_once : forall ops,
    legal_run (@o_init K V E) ops -> NoDup (o_released (orun (@o_init K V E) ops)).
  Proof. intros ops _. apply run_released_nodup. constructor. Qed.

  (* 2 *)
  Theorem own_no_early_release : forall ops,
    legal_run (@o_init K V E) ops ->
    forall u, In u (o_released (orun (@o_init K V E) ops)) ->
    strong (o_objs (orun (@o_init K V E) ops)) u = 0.
  Proof.
    intros ops HL. destruct (own_run_ok ops _ own_init_ok HL) as [_ [_ HR]]. exact HR.
  Qed.

  Theorem own_held_not_released : forall ops,
    legal_run (@o_init K V E) ops ->
    forall u, strong (o_objs (orun (@o_init K V E) ops)) u > 0 ->
    ~ In u (o_released (orun (@o_init K V E) ops)).
  Proof.
    intros ops HL u Hs Hin. rewrite (own_no_early_release ops HL u Hin) in Hs. lia.
  Qed.

  (* 3 *)
  Theorem own_all_released : forall ops,
    legal_run (@o_init K V E) ops -> o_objs (orun (@o_init K V E) ops) = [] ->
    forall u, In u (put_ids ops) <-> In u (o_released (orun (@o_init K V E) ops)).
  Proof.
    intros ops _ Hnil u.
    assert (HS : Slots (@o_init K V E)) by (destruct own_init_ok as [H _]; exact H).
    pose proof (run_tracked ops _ u HS) as Ht. unfold tracked in Ht.
    rewrite Hnil, strong_nil in Ht. cbn [o_init o_objs o_released In] in Ht.
    rewrite strong_nil in Ht. split; intro H.
    - destruct Ht as [_ Ht]. destruct (Ht (or_intror H)) as [H0|H0]; [lia | exact H0].
    - destruct Ht as [Ht _]. destruct (Ht (or_intror H)) as [[H0|[]]|H0]; [lia | exact H0].
  Qed.

  (* 4: the invariant needed is slot uniqueness only (the first component of OwnOK) *)
  Theorem own_release_exactly_at_zero : forall (st : ost) s, OwnOK st ->
    forall u, In u (snd (drop_slot st s)) <->
      (strong (o_objs st) u > 0 /\ strong (o_objs (fst (drop_slot st s))) u = 0 /\ ~ In u (o_released st)).
  Proof. intros st s [HS _]. exact (drop_exact st s HS). Qed.

  (* the same for the implicit drop performed by a put (re-assignment of a slot) *)
  Theorem own_put_release_exactly_at_zero : forall (st : ost) s owned, OwnOK st ->
    forall u, In u (snd (put_slot st s owned)) <->
      (strong (o_objs st) u > 0 /\ strong (o_objs (fst (put_slot st s owned))) u = 0 /\ ~ In u (o_released st)).
  Proof. intros st s owned [HS _]. exact (put_exact st s owned HS). Qed.

  (* 5 *)
  Theorem own_heap_irrelevant :
    (forall (st : ost) h, o_objs (set_heap st h) = o_objs st /\ o_released (set_heap st h) = o_released st)
    /\ (forall (st : ost) s, o_heap (fst (drop_slot st s)) = o_heap st).
  Proof.
    split.
    - intros st h. split; reflexivity.
    - intros st s. destruct (get_obj (o_objs st) s) as [o|] eqn:Hg.
      + rewrite (drop_some _ _ _ Hg). reflexivity.
      + rewrite (drop_none _ _ Hg). reflexivity.
  Qed.

  Theorem own_heap_irrelevant_put : forall (st : ost) s owned, o_heap (fst (put_slot st s owned)) = o_heap st.
  Proof. reflexivity. Qed.

  (* ---------- the API layer (aop): which object keeps which nodes alive ---------- *)

  Lemma find_app_ : forall (A : Type) (f : A -> bool) (a b : list A),
    find f (a ++ b) = match find f a with Some x => Some x | None => find f b end.
  Proof. intros A f a b. induction a as [|x a IH]; [reflexivity|]. simpl. destruct (f x); [reflexivity|exact IH]. Qed.

  Lemma find_del_other : forall (os : objs) s t, t <> s ->
    find (fun p : nat * list nat => fst p =? s) (del_obj os t) = find (fun p : nat * list nat => fst p =? s) os.
  Proof.
    intros os s t Hts. unfold del_obj. induction os as [|[a o] l IH]; [reflexivity|]. cbn [filter find fst].
    destruct (Nat.eqb_spec a t) as [Hat|Hat]; cbn [negb].
    - destruct (Nat.eqb_spec a s) as [Has|Has]; [congruence|]. exact IH.
    - cbn [find fst]. destruct (Nat.eqb_spec a s); [reflexivity|exact IH].
  Qed.

  Lemma astep_fst : forall (st : ost) a, fst (astep st a) = ostep st (aop_oop a).
  Proof. intros st a. unfold astep. destruct (aop_oop a); reflexivity. Qed.

  (* "edges, paths and search results keep the nodes they mention alive": whatever object currently sits in a slot,
     none of the nodes it owns has been released *)
  Theorem own_object_keeps_alive : forall ops,
    legal_run (@o_init K V E) ops ->
    forall s owned, get_obj (o_objs (orun (@o_init K V E) ops)) s = Some owned ->
    forall u, In u owned -> ~ In u (o_released (orun (@o_init K V E) ops)).
  Proof.
    intros ops HL s owned Hg u Hin. apply (own_held_not_released ops HL).
    pose proof (@get_some_count _ _ _ u Hg) as Hc. apply count_id_pos in Hin. lia.
  Qed.

  (* what the API objects mention is what they own *)
  Lemma edge_owns_endpoints : forall e : edge E, In (esrc e) (edge_owns e) /\ In (edst e) (edge_owns e).
  Proof. intros e. unfold edge_owns. simpl. auto. Qed.

  Lemma path_owns_endpoints : forall (p : list (edge E)) e, In e p -> In (esrc e) (path_owns p) /\ In (edst e) (path_owns p).
  Proof.
    intros p e Hin. unfold path_owns. split; apply in_flat_map; exists e; (split; [exact Hin|]); apply edge_owns_endpoints.
  Qed.

  Lemma graph_owns_members : forall (g : list (K * nat)) k u, In (k, u) g -> In u (graph_owns g).
  Proof. intros g k u Hin. unfold graph_owns. apply in_map_iff. exists (k, u). split; [reflexivity|exact Hin]. Qed.

  (* re-assigning a slot releases nothing when every node of the old content is still owned by the new content or by
     another live object: Graph::insert (the container owns a superset) and Graph::remove (the handle handed out owns the
     removed node) never release a node value *)
  Lemma put_no_release : forall (st : ost) s new,
    (forall x, In x (old_of (o_objs st) s) -> In x new \/ strong (del_obj (o_objs st) s) x > 0) ->
    snd (put_slot st s new) = [].
  Proof.
    intros st s new Hkeep. destruct (snd (put_slot st s new)) as [|u r] eqn:Hrel; [reflexivity|].
    assert (Hin : In u (snd (put_slot st s new))) by (rewrite Hrel; left; reflexivity).
    apply put_snd_in in Hin. destruct Hin as [Hold [Hz _]]. rewrite put_strong in Hz.
    destruct (Hkeep u Hold) as [Hn | Hs]; [apply count_id_pos in Hn|]; lia.
  Qed.

  Theorem own_container_insert_releases_nothing : forall (st : ost) s (g : list (K * nat)) (k : K) (u : nat),
    get_obj (o_objs st) s = Some (graph_owns g) ->
    snd (astep st (@AGraph K E s (g ++ [(k, u)]))) = [].
  Proof.
    intros st s g k u Hg. unfold astep, aop_oop. apply put_no_release. intros x Hx. left.
    unfold old_of in Hx. rewrite Hg in Hx. unfold graph_owns in *. rewrite map_app. apply in_or_app. left. exact Hx.
  Qed.

  (* Graph::remove(k) hands the node out into slot t first; then the container lets go of it *)
  Theorem own_container_remove_releases_nothing : forall (st : ost) s t (g g' : list (K * nat)) u,
    Slots st -> t <> s ->
    get_obj (o_objs st) s = Some (graph_owns g) ->
    (forall x, In x (graph_owns g) -> x = u \/ In x (graph_owns g')) ->
    (forall x, In x (old_of (o_objs st) t) -> strong (del_obj (o_objs st) t) x > 0 \/ x = u) ->
    snd (astep st (@ANode K E t u)) = [] /\ snd (astep (fst (astep st (@ANode K E t u))) (@AGraph K E s g')) = [].
  Proof.
    intros st s t g g' u HS Hts Hg Hsub Hold. split.
    - unfold astep, aop_oop. apply put_no_release. intros x Hx. destruct (Hold x Hx) as [H|H]; [right; exact H|left; left; symmetry; exact H].
    - unfold astep at 1. unfold aop_oop at 1. apply put_no_release. intros x Hx.
      rewrite astep_fst in Hx |- *. cbn [aop_oop ostep] in Hx |- *. rewrite put_objs in Hx |- *.
      assert (Hget : get_obj (del_obj (o_objs st) t ++ [(t, [u])]) s = Some (graph_owns g)).
      { clear Hx. unfold get_obj in *. rewrite find_app_.
        pose proof (@find_del_other (o_objs st) s t Hts) as Hf.
        rewrite Hf. destruct (find (fun p : nat * list nat => fst p =? s) (o_objs st)) as [q|]; [exact Hg|discriminate Hg]. }
      unfold old_of in Hx. rewrite Hget in Hx. destruct (Hsub x Hx) as [Hxu | Hin]; [right|left; exact Hin].
      subst x. unfold del_obj. rewrite filter_app, strong_app. cbn [filter fst].
      destruct (Nat.eqb_spec t s) as [H|_]; [congruence|]. cbn [negb]. rewrite strong_cons, strong_nil. cbn [count_id]. rewrite Nat.eqb_refl. lia.
  Qed.
End OwnProof.

(* ---------- non-vacuity ---------- *)

Definition ex_ops : list oop :=
  [OpPut 0 [0]; OpPut 1 [1]; OpPut 2 [0; 1]; OpDrop 0; OpDrop 1; OpDrop 2].

Example own_example :
  legal_run (@o_init nat nat nat) ex_ops /\
  o_released (orun (@o_init nat nat nat) (firstn 5 ex_ops)) = [] /\
  o_objs (orun (@o_init nat nat nat) (firstn 5 ex_ops)) = [(2, [0; 1])] /\
  snd (drop_slot (orun (@o_init nat nat nat) (firstn 5 ex_ops)) 2) = [0; 1] /\
  o_released (orun (@o_init nat nat nat) ex_ops) = [0; 1] /\
  o_objs (orun (@o_init nat nat nat) ex_ops) = [].
Proof.
  vm_compute. repeat split; repeat constructor.
Qed.

(* re-assigning a slot with an object owning the same node does not release it (store-then-drop);
   re-assigning with an object owning another node releases the old one *)
Example own_reassign_example :
  o_released (orun (@o_init nat nat nat) [OpPut 0 [0]; OpPut 0 [0]]) = [] /\
  strong (o_objs (orun (@o_init nat nat nat) [OpPut 0 [0]; OpPut 0 [0]])) 0 = 1 /\
  o_released (orun (@o_init nat nat nat) [OpPut 0 [0]; OpPut 0 [1]]) = [0] /\
  ~ legal (orun (@o_init nat nat nat) [OpPut 0 [0]; OpPut 0 [1]]) (OpPut 1 [0]).
Proof.
  vm_compute. repeat split. intro H. inversion H as [|x l Hx Hl]. discriminate Hx.
Qed.

Print Assumptions own_init_ok.
Print Assumptions own_step_ok.
Print Assumptions own_run_ok.
Print Assumptions own_slots_run.
Print Assumptions own_released_once.
Print Assumptions own_no_early_release.
Print Assumptions own_held_not_released.
Print Assumptions own_all_released.
Print Assumptions own_release_exactly_at_zero.
Print Assumptions own_put_release_exactly_at_zero.
Print Assumptions own_heap_irrelevant.
Print Assumptions own_heap_irrelevant_put.
Print Assumptions own_object_keeps_alive.
Print Assumptions own_container_insert_releases_nothing.
Print Assumptions own_container_remove_releases_nothing.
Print Assumptions own_example.
Print Assumptions own_reassign_example.
