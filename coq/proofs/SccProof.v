(* SccProof.v — Graph::scc (Kosaraju) computes exactly the strongly connected components. *)
From Gdsl.Model Require Import Base NodeOps Search Callback Container Scc Spec.
From Coq Require Import Lia Permutation.
From Gdsl.Proofs Require Import Descend Order.

Set Implicit Arguments.

(* ------------------------------------------------------------------ *)
(* positions in duplicate-free lists *)
Lemma before_app_lr x y l r : In x l -> In y r -> before x y (l ++ r).
Proof.
  intros Hx Hy. apply in_split in Hy. destruct Hy as [r1 [r2 Hr]]. subst r.
  replace (l ++ r1 ++ y :: r2) with ((l ++ r1) ++ y :: r2) by now rewrite <- app_assoc.
  apply before_mid_l. apply in_or_app. now left.
Qed.

Lemma before_split_inv x m : forall l1 l2,
  NoDup (l1 ++ x :: l2) -> before x m (l1 ++ x :: l2) -> In m l2.
Proof.
  intros l1 l2 Hnd [a [b [c Heq]]]. revert a Heq Hnd.
  induction l1 as [|y l1 IH]; intros a Heq Hnd.
  - destruct a as [|x' a]; cbn in Heq.
    + injection Heq as H0. rewrite H0. apply in_or_app. right. now left.
    + injection Heq as H0 H1. cbn in Hnd. apply NoDup_cons_iff in Hnd. destruct Hnd as [Hn _].
      exfalso. apply Hn. rewrite H1. apply in_or_app. right. now left.
  - destruct a as [|y' a]; cbn in Heq; injection Heq as H0 H1; cbn in Hnd;
      apply NoDup_cons_iff in Hnd; destruct Hnd as [Hn Hnd'].
    + exfalso. apply Hn. rewrite H0. apply in_or_app. right. now left.
    + eapply IH; eauto.
Qed.

Lemma to_In (E : Type) (v : nat) (e : E) (l : list (nat * E)) : In e (to_ v l) <-> In (v, e) l.
Proof.
  unfold to_. rewrite in_map_iff. split.
  - intros [[w e'] [He Hin]]. cbn in He. subst e'. apply filter_In in Hin. destruct Hin as [Hin Hq].
    cbn in Hq. apply Nat.eqb_eq in Hq. now subst.
  - intros Hin. exists (v, e). split; [reflexivity|]. apply filter_In. split; [exact Hin|].
    cbn. apply Nat.eqb_refl.
Qed.

(* ------------------------------------------------------------------ *)
Section Generic.
  Variables K V E : Type.
  Variable keqb : K -> K -> bool.
  Hypothesis Hk : KeqbSpec keqb.
  Variable h : heap K V E.
  Hypothesis Hwf : Wf h.
  Hypothesis Hinj : KeysInj h.

  Lemma reach_mono d (acc1 acc2 : edge E -> bool) :
    (forall e, is_edge h d e -> acc1 e = true -> acc2 e = true) ->
    forall a b, Reach h d acc1 a b -> Reach h d acc2 a b.
  Proof.
    intros Hm a b [p [Hc Hf]]. exists p. split; [exact Hc|].
    eapply Forall_impl; [|exact Hf]. intros e [He Ha]. split; auto.
  Qed.

  Lemma good_valid d acc (e : edge E) : good_edge h d acc e -> edst e < size h.
  Proof.
    intros [He _]. unfold is_edge in He. apply (adj_valid Hwf) in He. exact He.
  Qed.

  Lemma src_valid d acc (e : edge E) : good_edge h d acc e -> esrc e < size h.
  Proof.
    intros [He _]. unfold is_edge in He. destruct (lt_dec (esrc e) (size h)) as [Hl|Hl]; [exact Hl|].
    exfalso. destruct Hwf as [Hz _]. destruct (Hz (esrc e)) as [Ho Hi]; [lia|].
    destruct d; cbn in He; rewrite ?Ho, ?Hi in He; exact He.
  Qed.

  (* the end of a nonempty path is the target of an accepted edge *)
  Lemma reach_last d acc a b : Reach h d acc a b ->
    b = a \/ exists e, good_edge h d acc e /\ edst e = b.
  Proof.
    intros [p [Hc Hf]]. revert a Hc Hf. induction p as [|e p IH]; intros a Hc Hf.
    - inversion Hc; subst. now left.
    - inversion Hc; subst. inversion Hf; subst. right.
      destruct (IH _ H4 H2) as [Hb|Hb]; [|exact Hb]. exists e. split; auto.
  Qed.

  (* induction along a path, peeling its first edge *)
  Lemma reach_ind_l d acc (b : nat) (P : nat -> Prop) :
    P b ->
    (forall e, good_edge h d acc e -> Reach h d acc (edst e) b -> P (edst e) -> P (esrc e)) ->
    forall a, Reach h d acc a b -> P a.
  Proof.
    intros Hb Hstep a [p [Hc Hf]]. revert a Hc Hf. induction p as [|e p IH]; intros a Hc Hf.
    - inversion Hc; subst. exact Hb.
    - inversion Hc as [|a' e' p' b' Hs Hc']; subst. apply Forall_cons_iff in Hf. destruct Hf as [Hg Hf].
      apply Hstep; auto. exists p. now split.
  Qed.

  Lemma nodup_app_intro (A : Type) (l1 l2 : list A) :
    NoDup l1 -> NoDup l2 -> (forall a, In a l1 -> ~ In a l2) -> NoDup (l1 ++ l2).
  Proof.
    induction l1 as [|x l1 IH]; intros H1 H2 Hd; [exact H2|].
    apply NoDup_cons_iff in H1. destruct H1 as [Hn H1]. cbn. constructor.
    - intros Hin. apply in_app_or in Hin. destruct Hin as [Hin|Hin]; [contradiction|].
      apply (Hd x); [now left|exact Hin].
    - apply IH; auto. intros a Ha. apply Hd. now right.
  Qed.

  (* reachability is decidable: run the model's own depth-first search *)
  Lemma reach_dec d (acc : edge E -> bool) a b : a < size h ->
    Reach h d acc a b \/ ~ Reach h d acc a b.
  Proof.
    intros Ha.
    set (cb := fun (c : unit) (h' : heap K V E) (e : edge E) => (c, h', acc e)).
    assert (Hp : PureCb h cb acc) by (intros c e; split; reflexivity).
    destruct (dfs_terminates Hk (fun _ _ : V => true) Hwf Hinj Hp d Ha tt None false false (le_n _))
      as [_ [_ [Ht _]]].
    destruct (order_edges keqb cb d false (fuel_bound h) h tt a) as [st [tree|]] eqn:Ho;
      [|exfalso; apply Ht; reflexivity].
    destruct (order_edges_tree Hk Hwf Hinj Hp d Ha _ _ _ Ho) as [_ [_ [_ [Hr _]]]].
    destruct (Nat.eq_dec b a) as [Heq|Hne].
    - left. subst. apply reach_refl.
    - destruct (in_dec Nat.eq_dec b (map (@edst E) tree)) as [Hin|Hin].
      + left. now apply Hr.
      + right. intros HR. apply Hin. now apply Hr.
  Qed.

  (* ---------------- the leader of a node in a finishing order ---------------- *)
  Section Leader.
    Variable d : dir.
    Variable accept : edge E -> bool.
    Notation R := (Reach h d accept).
    Notation good := (good_edge h d accept).

    Lemma dk_leader S u pre pst S' : DfsKids h d accept S u pre pst S' ->
      forall Gr, (forall g, In g Gr -> R g u) ->
        (forall e, good e -> In (esrc e) S -> ~ In (esrc e) Gr -> In (edst e) S) ->
      forall z, In z pre ->
        R z u \/ exists m, In m pst /\ R z m /\ R m z /\
                   forall x, R z x -> (In x S /\ ~ In x Gr) \/ x = m \/ before x m pst.
    Proof.
      induction 1 as [S u Hd|S u e pre1 post1 S1 pre2 post2 S2 Hg Hs Hn H1 IH1 H2 IH2];
        intros Gr HGr Hbl z Hz; [destruct Hz|].
      set (v := edst e) in *.
      assert (Huv : R u v). { rewrite <- Hs. apply reach_edge_l; auto. apply reach_refl. }
      pose proof (dk_vs H1) as Hvs1. pose proof (dk_perm H1) as Hp1.
      assert (HGr1 : forall g, In g (v :: Gr) -> R g v).
      { intros g [Hgv|Hgv]; [subst; apply reach_refl|]. eapply reach_trans; [apply HGr; exact Hgv|exact Huv]. }
      assert (Hbl1 : forall e', good e' -> In (esrc e') (v :: S) -> ~ In (esrc e') (v :: Gr) -> In (edst e') (v :: S)).
      { intros e' Hg' [Hi|Hi] Hni; [exfalso; apply Hni; now left|]. right. apply Hbl; auto.
        intros Hc. apply Hni. now right. }
      assert (Hbl2 : forall e', good e' -> In (esrc e') S1 -> ~ In (esrc e') Gr -> In (edst e') S1).
      { intros e' Hg' Hi Hni. rewrite Hvs1 in Hi. apply in_app_or in Hi. destruct Hi as [Hi|[Hi|Hi]].
        - apply (dk_closed H1 Hg'). right. now apply in_rev.
        - apply (dk_closed H1 Hg'). left. now symmetry.
        - apply (dk_incl H1). right. apply Hbl; auto. }
      (* nodes strongly connected with the child v *)
      assert (Hstar : forall z, R z v -> R v z ->
        R z u \/ exists m, In m (post1 ++ v :: post2) /\ R z m /\ R m z /\
           forall x, R z x -> (In x S /\ ~ In x Gr) \/ x = m \/ before x m (post1 ++ v :: post2)).
      { intros z0 Hzv Hvz.
        destruct (@reach_dec d accept v u (good_valid Hg)) as [Hvu|Hnvu].
        - left. eapply reach_trans; eauto.
        - right. exists v. split; [apply in_or_app; right; now left|]. split; [exact Hzv|]. split; [exact Hvz|].
          intros x Hzx. assert (Hvx : R v x) by (eapply reach_trans; eauto).
          assert (Hx : In x S1 /\ ~ In x Gr).
          { assert (Hgen : forall p a b, chain a p b -> Forall good p -> R v a -> In a S1 -> In b S1 /\ ~ In b Gr).
            { induction p as [|e' p IHp]; intros a b Hc Hf Hva Ha.
              - inversion Hc; subst. split; [exact Ha|]. intros Hc'. apply Hnvu.
                eapply reach_trans; [exact Hva|]. now apply HGr.
              - inversion Hc; subst. inversion Hf; subst.
                assert (Hna : ~ In (esrc e') Gr).
                { intros Hc'. apply Hnvu. eapply reach_trans; [exact Hva|]. now apply HGr. }
                eapply IHp; eauto.
                apply reach_edge_r; auto. }
            destruct Hvx as [p [Hc Hf]]. eapply Hgen; eauto. apply reach_refl.
            apply (dk_incl H1). now left. }
          destruct Hx as [Hx1 Hx2]. rewrite Hvs1 in Hx1. apply in_app_or in Hx1.
          destruct Hx1 as [Hx1|[Hx1|Hx1]].
          + right. right. apply before_mid_l. apply (Permutation_in _ Hp1). now apply in_rev.
          + right. left. now symmetry.
          + left. now split. }
      destruct Hz as [Hz|Hz]; [|apply in_app_or in Hz; destruct Hz as [Hz|Hz]].
      - subst z. apply Hstar; apply reach_refl.
      - destruct (IH1 (v :: Gr) HGr1 Hbl1 z Hz) as [Hzv|[m [Hm [Hzm [Hmz Hall]]]]].
        + apply Hstar; [exact Hzv|]. apply (dk_reach H1 _ Hz).
        + right. exists m. split; [apply in_or_app; now left|]. split; [exact Hzm|]. split; [exact Hmz|].
          intros x Hzx. destruct (Hall x Hzx) as [[Hx1 Hx2]|[Hx|Hx]].
          * left. destruct Hx1 as [Hx1|Hx1]; [exfalso; apply Hx2; now left|]. split; [exact Hx1|].
            intros Hc. apply Hx2. now right.
          * right. now left.
          * right. right. now apply before_app_l.
      - destruct (IH2 Gr HGr Hbl2 z Hz) as [Hzu|[m [Hm [Hzm [Hmz Hall]]]]]; [now left|].
        right. exists m. split; [apply in_or_app; right; now right|]. split; [exact Hzm|]. split; [exact Hmz|].
        intros x Hzx. destruct (Hall x Hzx) as [[Hx1 Hx2]|[Hx|Hx]].
        + rewrite Hvs1 in Hx1. apply in_app_or in Hx1. destruct Hx1 as [Hx1|[Hx1|Hx1]].
          * right. right. apply before_split; auto. apply (Permutation_in _ Hp1). now apply in_rev.
          * right. right. rewrite <- Hx1. now apply before_mid_r.
          * left. now split.
        + right. now left.
        + right. right. apply before_app_r. change (before x m ([v] ++ post2)). now apply before_app_r.
    Qed.

    Lemma dk_leader_whole root pre pst S' : DfsKids h d accept [root] root pre pst S' ->
      forall z, In z (root :: pre) -> exists m, In m (pst ++ [root]) /\ R z m /\ R m z /\
         forall x, R z x -> x = m \/ before x m (pst ++ [root]).
    Proof.
      intros HD z Hz. destruct (dk_whole HD) as [Hre [Hperm [Hpp _]]].
      assert (Hroot : forall x, R root x -> x = root \/ before x root (pst ++ [root])).
      { intros x Hx. apply Hre in Hx. apply (Permutation_in _ Hperm) in Hx. destruct Hx as [Hx|Hx]; [now left|].
        right. apply before_mid_l. apply (Permutation_in _ Hpp Hx). }
      assert (Hcase : R z root -> R root z -> exists m, In m (pst ++ [root]) /\ R z m /\ R m z /\
         forall x, R z x -> x = m \/ before x m (pst ++ [root])).
      { intros Hzr Hrz. exists root. split; [apply in_or_app; right; now left|]. split; [exact Hzr|]. split; [exact Hrz|].
        intros x Hx. apply Hroot. eapply reach_trans; eauto. }
      destruct Hz as [Hz|Hz].
      - subst z. apply Hcase; apply reach_refl.
      - destruct (@dk_leader _ _ _ _ _ HD [root]) with (z := z) as [Hzr|[m [Hm [Hzm [Hmz Hall]]]]]; auto.
        + intros g [Hg|[]]. subst. apply reach_refl.
        + intros e _ Hi Hni. exfalso. apply Hni. exact Hi.
        + apply Hcase; [exact Hzr|]. apply (dk_reach HD _ Hz).
        + exists m. split; [apply in_or_app; now left|]. split; [exact Hzm|]. split; [exact Hmz|].
          intros x Hx. destruct (Hall x Hx) as [[Hx1 Hx2]|[Hx'|Hx']]; [contradiction|now left|].
          right. now apply before_app_l.
    Qed.
  End Leader.
End Generic.

(* ------------------------------------------------------------------ *)
Section SccProof.
  Variables K V E : Type.
  Variable keqb : K -> K -> bool.
  Hypothesis Hk : KeqbSpec keqb.

  Definition SC (h : heap K V E) (u v : nat) : Prop :=
    Reach h DOut (@accept_all E) u v /\ Reach h DOut (@accept_all E) v u.

  (* ---------------- containers ---------------- *)
  Lemma g_get_in (g : graph K) k u : NoDup (map (@fst K nat) g) -> In (k, u) g -> g_get keqb g k = Some u.
  Proof.
    unfold g_get. induction g as [|[k0 u0] g IH]; intros Hnd Hin; [destruct Hin|].
    cbn in Hnd. apply NoDup_cons_iff in Hnd. destruct Hnd as [Hn Hnd]. cbn [find fst].
    destruct (keqb k0 k) eqn:Hq.
    - apply Hk in Hq. subst k0. destruct Hin as [Hin|Hin]; [now inversion Hin|].
      exfalso. apply Hn. apply in_map_iff. exists (k, u). now split.
    - destruct Hin as [Hin|Hin]; [|now apply IH].
      inversion Hin; subst. assert (Ht : keqb k k = true) by now apply Hk. congruence.
  Qed.

  Lemma g_get_some (g : graph K) k u : g_get keqb g k = Some u -> exists k', In (k', u) g.
  Proof.
    unfold g_get. destruct (find (fun p => keqb (fst p) k) g) as [[k' u']|] eqn:Hf; [|discriminate].
    cbn. intros Heq. inversion Heq; subst. apply find_some in Hf. exists k'. apply Hf.
  Qed.

  Lemma g_iter_perm (g : graph K) order : NoDup (map (@fst K nat) g) -> OrderOK g order ->
    Permutation (g_iter keqb g order) (members g).
  Proof.
    intros Hnd Ho. unfold g_iter. rewrite (Permutation_flat_map _ Ho).
    assert (Hgen : forall g', incl g' g ->
      flat_map (fun k => match g_get keqb g k with Some u => [u] | None => [] end) (map (@fst K nat) g') =
      map (@snd K nat) g').
    { induction g' as [|[k u] g' IH]; intros Hi; [reflexivity|]. cbn [map flat_map fst snd].
      rewrite (@g_get_in g k u Hnd) by (apply Hi; now left). cbn. f_equal. apply IH.
      intros x Hx. apply Hi. now right. }
    unfold members. rewrite Hgen; [apply Permutation_refl|apply incl_refl].
  Qed.

  Lemma members_nodup (h : heap K V E) (g : graph K) : GraphOK h g -> NoDup (members g).
  Proof.
    intros [Hnd Hg]. unfold members. induction g as [|[k u] g IH]; [constructor|].
    cbn in Hnd. apply NoDup_cons_iff in Hnd. destruct Hnd as [Hn Hnd]. cbn. constructor.
    - intros Hin. apply in_map_iff in Hin. destruct Hin as [[k' u'] [Hu Hin]]. cbn in Hu. subst u'.
      destruct (Hg k u (or_introl eq_refl)) as [H1 _].
      destruct (Hg k' u (or_intror Hin)) as [H2 _].
      rewrite H1 in H2. inversion H2; subst. apply Hn. apply in_map_iff. exists (k', u). now split.
    - apply IH; auto. intros k' u' Hin. apply Hg. now right.
  Qed.

  Lemma members_valid (h : heap K V E) (g : graph K) : GraphOK h g -> forall x, In x (members g) -> x < size h.
  Proof.
    intros [_ Hg] x Hx. apply in_map_iff in Hx. destruct Hx as [[k u] [Hu Hin]]. cbn in Hu. subst u.
    apply (Hg k x Hin).
  Qed.

  Lemma g_iter_valid (h : heap K V E) (g : graph K) order : GraphOK h g ->
    forall x, In x (g_iter keqb g order) -> x < size h.
  Proof.
    intros [_ Hg] x Hx. unfold g_iter in Hx. apply in_flat_map in Hx. destruct Hx as [k [_ Hx]].
    destruct (g_get keqb g k) as [u|] eqn:Hgk; [|destruct Hx]. destruct Hx as [Hx|[]]. subst u.
    apply g_get_some in Hgk. destruct Hgk as [k' Hin]. apply (Hg k' x Hin).
  Qed.

  (* ---------------- one heap ---------------- *)
  Section Heap.
    Variable h : heap K V E.
    Hypothesis Hwf : Wf h.
    Hypothesis Hinj : KeysInj h.
    Notation RO := (Reach h DOut (@accept_all E)).
    Notation goodO := (good_edge h DOut (@accept_all E)).

    Definition unseen (seen : list K) (e : edge E) : bool := negb (in_vis keqb h seen (edst e)).

    Lemma unseen_pure seen : PureCb h (unseen_cb keqb seen) (unseen seen).
    Proof. intros c e. split; reflexivity. Qed.

    Lemma unseen_true Vs seen e : Vis h Vs seen -> edst e < size h ->
      (unseen seen e = true <-> ~ In (edst e) Vs).
    Proof.
      intros HV Hv. unfold unseen. rewrite negb_true_iff. rewrite <- (in_vis_spec Hk Hinj HV Hv).
      destruct (in_vis keqb h seen (edst e)); intuition congruence.
    Qed.

    Lemma in_vis_dec Vs seen v : Vis h Vs seen -> v < size h ->
      (in_vis keqb h seen v = true /\ In v Vs) \/ (in_vis keqb h seen v = false /\ ~ In v Vs).
    Proof.
      intros HV Hv. pose proof (in_vis_spec Hk Hinj HV Hv) as Hs.
      destruct (in_vis keqb h seen v); [left|right]; split; auto.
      - now apply Hs.
      - intros Hin. apply Hs in Hin. discriminate.
    Qed.

    Lemma mark_all_spec : forall l Vs seen, Vis h Vs seen -> (forall x, In x l -> x < size h) ->
      Vis h (rev l ++ Vs) (mark_all h seen l).
    Proof.
      induction l as [|a l IH]; intros Vs seen HV Hl; [exact HV|].
      cbn [rev mark_all]. rewrite <- app_assoc. cbn [app]. apply IH.
      - apply mark_spec; auto. apply Hl. now left.
      - intros x Hx. apply Hl. now right.
    Qed.

    (* what one filtered order_nodes call returns *)
    Lemma call_spec d post fuel seen root st l :
      root < size h ->
      order_nodes keqb (unseen_cb keqb seen) d post fuel h tt root = (st, Some l) ->
      exists pre pst S', DfsKids h d (unseen seen) [root] root pre pst S' /\
         l = (if post then pst ++ [root] else root :: pre) /\
         (forall v, In v l <-> Reach h d (unseen seen) root v) /\
         Permutation l (root :: pre) /\ NoDup l.
    Proof.
      intros Hr H. apply order_nodes_spec in H. destruct H as [tree [Ho Hl]].
      destruct (order_is_dfs_run Hk Hwf Hinj (unseen_pure seen) d Hr _ _ _ Ho)
        as [pre [pst [S' [HD [Hm [Hre [Hp [Hpp Hnd]]]]]]]].
      assert (Hl' : l = (if post then pst ++ [root] else root :: pre)).
      { rewrite Hl, Hm. destruct post; reflexivity. }
      assert (Hperm : Permutation l (root :: pre)).
      { rewrite Hl'. destruct post; [|apply Permutation_refl].
        eapply Permutation_trans; [apply Permutation_sym, Permutation_cons_append|].
        constructor. now apply Permutation_sym. }
      exists pre, pst, S'. split; [exact HD|]. split; [exact Hl'|]. split; [|split; [exact Hperm|]].
      - intros v. rewrite <- Hre. split; intros Hv.
        + apply (Permutation_in _ (Permutation_sym Hp)). apply (Permutation_in _ Hperm Hv).
        + apply (Permutation_in _ (Permutation_sym Hperm)). apply (Permutation_in _ Hp Hv).
      - eapply Permutation_NoDup; [apply Permutation_sym; exact Hperm|exact Hnd].
    Qed.

    Lemma reach_unseen_last d Vs seen a b : Vis h Vs seen -> Reach h d (unseen seen) a b ->
      b = a \/ (~ In b Vs /\ b < size h).
    Proof.
      intros HV HR. destruct (reach_last HR) as [Hb|[e [Hg He]]]; [now left|]. right.
      pose proof (good_valid Hwf Hg) as Hv. subst b. split; [|exact Hv].
      apply (unseen_true _ HV Hv). apply Hg.
    Qed.

    Lemma unseen_to_all seen a b : Reach h DOut (unseen seen) a b -> RO a b.
    Proof. apply reach_mono. intros e _ _. reflexivity. Qed.

    Definition OutClosed (T : list nat) : Prop := forall e, goodO e -> In (esrc e) T -> In (edst e) T.
    Definition InClosed (T : list nat) : Prop := forall e, goodO e -> In (edst e) T -> In (esrc e) T.

    Lemma outclosed_reach T a b : OutClosed T -> RO a b -> In a T -> In b T.
    Proof. intros Hc. apply closed_reach. exact Hc. Qed.

    Lemma inclosed_reach T a b : InClosed T -> RO a b -> In b T -> In a T.
    Proof.
      intros Hc HR Hb. revert a HR. apply reach_ind_l; [exact Hb|].
      intros e Hg _ Hin. now apply Hc.
    Qed.

    (* a path ending outside a closed set never enters it *)
    Lemma reach_restrict Vs seen : Vis h Vs seen -> OutClosed Vs ->
      forall a b, RO a b -> ~ In b Vs -> Reach h DOut (unseen seen) a b.
    Proof.
      intros HV Hcl a b HR Hnb. revert a HR. apply reach_ind_l; [apply reach_refl|].
      intros e Hg Hr IH. apply reach_edge_l; [|exact IH]. split; [apply Hg|].
      apply (unseen_true _ HV (good_valid Hwf Hg)). intros Hin. apply Hnb.
      eapply outclosed_reach; eauto.
    Qed.

    Lemma SC_refl u : SC h u u.
    Proof. split; apply reach_refl. Qed.
    Lemma SC_sym u v : SC h u v -> SC h v u.
    Proof. intros [H1 H2]. now split. Qed.
    Lemma SC_trans u v w : SC h u v -> SC h v w -> SC h u w.
    Proof. intros [H1 H2] [H3 H4]. split; eapply reach_trans; eauto. Qed.

    Definition Leader (O : list nat) : Prop :=
      forall z, In z O -> exists m, RO z m /\ RO m z /\ forall x, RO z x -> x = m \/ before x m O.

    (* ---------------- termination ---------------- *)
    Lemma call_terminates d post fuel seen root : root < size h -> fuel_bound h <= fuel ->
      exists st l, order_nodes keqb (unseen_cb keqb seen) d post fuel h tt root = (st, Some l) /\
                   forall x, In x l -> x < size h.
    Proof.
      intros Hr Hf.
      destruct (dfs_terminates Hk (fun _ _ : V => true) Hwf Hinj (unseen_pure seen) d Hr tt None false post Hf)
        as [_ [_ [_ Ht]]].
      destruct (order_nodes keqb (unseen_cb keqb seen) d post fuel h tt root) as [st [l|]] eqn:Hon;
        [|exfalso; apply Ht; reflexivity].
      exists st, l. split; [reflexivity|]. intros x Hx.
      apply order_nodes_spec in Hon. destruct Hon as [tree [Ho Hl]].
      destruct (order_edges_tree Hk Hwf Hinj (unseen_pure seen) d Hr _ _ _ Ho) as [Hg _].
      assert (Ht' : forall y, In y (map (@edst E) tree) -> y < size h).
      { intros y Hy. apply in_map_iff in Hy. destruct Hy as [e [He Hin]]. subst y.
        rewrite Forall_forall in Hg. apply (good_valid Hwf (Hg e Hin)). }
      subst l. destruct post.
      - apply in_app_or in Hx. destruct Hx as [Hx|[Hx|[]]]; [now apply Ht'|now subst].
      - destruct Hx as [Hx|Hx]; [now subst|now apply Ht'].
    Qed.

    Lemma pass1_terminates fuel : fuel_bound h <= fuel -> forall ms visited O,
      (forall x, In x ms -> x < size h) -> (forall x, In x O -> x < size h) ->
      exists O', scc_ordering_go keqb fuel h ms visited O = Some O' /\ forall x, In x O' -> x < size h.
    Proof.
      intros Hf. induction ms as [|next r IH]; intros visited O Hms HO; cbn [scc_ordering_go].
      - exists O. now split.
      - assert (Hr : forall x, In x r -> x < size h) by (intros x Hx; apply Hms; now right).
        destruct (in_vis keqb h visited next); [now apply IH|].
        destruct (@call_terminates DOut true fuel visited next (Hms _ (or_introl eq_refl)) Hf)
          as [st [l [Hc Hl]]].
        rewrite Hc. apply IH; [exact Hr|]. intros x Hx. apply in_app_or in Hx. destruct Hx; auto.
    Qed.

    Lemma pass2_terminates fuel : fuel_bound h <= fuel -> forall stack assigned comps,
      (forall x, In x stack -> x < size h) -> scc_collect keqb fuel h stack assigned comps <> None.
    Proof.
      intros Hf. induction stack as [|x r IH]; intros assigned comps Hs; cbn [scc_collect]; [discriminate|].
      assert (Hr : forall y, In y r -> y < size h) by (intros y Hy; apply Hs; now right).
      destruct (in_vis keqb h assigned x); [now apply IH|].
      destruct (@call_terminates DIn false fuel assigned x (Hs _ (or_introl eq_refl)) Hf) as [st [l [Hc Hl]]].
      rewrite Hc. now apply IH.
    Qed.

    (* ---------------- pass 1: the finishing order ---------------- *)
    Section Pass1.
      Variable M : list nat.
      Hypothesis HMv : forall x, In x M -> x < size h.
      Hypothesis HMc : OutClosed M.

      Definition P1 (O : list nat) : Prop := NoDup O /\ incl O M /\ OutClosed O /\ Leader O.

      Lemma pass1_step fuel Vs visited O next st part :
        Vis h Vs visited -> (forall x, In x Vs <-> In x O) -> P1 O -> In next M -> ~ In next Vs ->
        order_nodes keqb (unseen_cb keqb visited) DOut true fuel h tt next = (st, Some part) ->
        P1 (O ++ part) /\ In next part /\ Vis h (rev part ++ Vs) (mark_all h visited part) /\
        (forall x, In x (rev part ++ Vs) <-> In x (O ++ part)).
      Proof.
        intros HV HVO [Hnd [HOM [HOc HOl]]] Hnext Hnv Hcall.
        destruct (call_spec _ _ _ _ (@HMv _ Hnext) Hcall) as [pre [pst [S' [HD [Hl [Hre [Hperm Hndp]]]]]]].
        assert (HVc : OutClosed Vs).
        { intros e Hg Hin. apply HVO. apply (@HOc _ Hg). now apply HVO. }
        assert (Hnew : forall v, In v part -> ~ In v Vs).
        { intros v Hv. apply Hre in Hv. destruct (reach_unseen_last HV Hv) as [Hv'|[Hv' _]]; [now subst|exact Hv']. }
        assert (HpM : forall v, In v part -> In v M).
        { intros v Hv. apply Hre in Hv. apply unseen_to_all in Hv. eapply outclosed_reach; eauto. }
        assert (Hnp : In next part) by (apply Hre, reach_refl).
        split; [split; [|split; [|split]]|split; [exact Hnp|split]].
        - apply nodup_app_intro; auto. intros a Ha Hp. apply (Hnew a Hp). now apply HVO.
        - intros x Hx. apply in_app_or in Hx. destruct Hx; auto.
        - intros e Hg Hin. apply in_or_app. apply in_app_or in Hin. destruct Hin as [Hin|Hin].
          + left. now apply (@HOc _ Hg).
          + destruct (in_dec Nat.eq_dec (edst e) Vs) as [Hd|Hd]; [left; now apply HVO|]. right.
            apply Hre. apply reach_edge_r; [now apply Hre|]. split; [apply Hg|].
            now apply (unseen_true _ HV (good_valid Hwf Hg)).
        - intros z Hz. apply in_app_or in Hz. destruct Hz as [Hz|Hz].
          + destruct (HOl z Hz) as [m [Hzm [Hmz Hall]]]. exists m. split; [exact Hzm|]. split; [exact Hmz|].
            intros x Hx. destruct (Hall x Hx) as [Hx'|Hx']; [now left|]. right. now apply before_app_l.
          + assert (Hz' : In z (next :: pre)) by apply (Permutation_in _ Hperm Hz).
            destruct (dk_leader_whole Hk Hwf Hinj HD Hz') as [m [Hm [Hzm [Hmz Hall]]]].
            cbn in Hl. rewrite <- Hl in Hm, Hall.
            exists m. split; [now apply unseen_to_all in Hzm|]. split; [now apply unseen_to_all in Hmz|].
            intros x Hx. destruct (in_dec Nat.eq_dec x Vs) as [Hd|Hd].
            * right. apply before_app_lr; [now apply HVO|exact Hm].
            * destruct (Hall x (reach_restrict HV HVc Hx Hd)) as [Hx'|Hx']; [now left|].
              right. now apply before_app_r.
        - apply mark_all_spec; auto.
        - intros x. rewrite !in_app_iff, <- in_rev, HVO. tauto.
      Qed.

      Lemma pass1_go fuel : forall ms Vs visited O O',
        (forall x, In x ms -> In x M) -> Vis h Vs visited -> (forall x, In x Vs <-> In x O) -> P1 O ->
        scc_ordering_go keqb fuel h ms visited O = Some O' ->
        P1 O' /\ (forall x, In x ms -> In x O') /\ incl O O'.
      Proof.
        induction ms as [|next r IH]; intros Vs visited O O' Hms HV HVO HP Hgo; cbn [scc_ordering_go] in Hgo.
        - inversion Hgo; subst. split; [exact HP|]. split; [intros x []|apply incl_refl].
        - assert (Hr : forall x, In x r -> In x M) by (intros x Hx; apply Hms; now right).
          assert (Hnext : In next M) by (apply Hms; now left).
          destruct (in_vis_dec HV (@HMv _ Hnext)) as [[Hq Hin]|[Hq Hin]]; rewrite Hq in Hgo.
          + destruct (IH _ _ _ _ Hr HV HVO HP Hgo) as [HP' [Hall Hincl]]. split; [exact HP'|]. split; [|exact Hincl].
            intros x [Hx|Hx]; [subst; apply Hincl; now apply HVO|now apply Hall].
          + destruct (order_nodes keqb (unseen_cb keqb visited) DOut true fuel h tt next) as [st [part|]] eqn:Hc;
              [|discriminate].
            destruct (pass1_step fuel next HV HVO HP Hnext Hin Hc) as [HP1 [Hnp [HV1 HVO1]]].
            destruct (IH _ _ _ _ Hr HV1 HVO1 HP1 Hgo) as [HP' [Hall Hincl]]. split; [exact HP'|].
            split.
            * intros x [Hx|Hx]; [subst; apply Hincl; apply in_or_app; now right|now apply Hall].
            * intros x Hx. apply Hincl. apply in_or_app. now left.
      Qed.
    End Pass1.

    (* ---------------- pass 2: components off the reversed finishing order ---------------- *)
    Section Pass2.
      Hypothesis Hmir : Mirror h.
      Variable O : list nat.
      Hypothesis HOnd : NoDup O.
      Hypothesis HOv : forall x, In x O -> x < size h.
      Hypothesis HOc : OutClosed O.
      Hypothesis HOi : InClosed O.
      Hypothesis HOl : Leader O.

      Lemma mirror_in u v e : In (v, e) (ins h u) <-> In (u, e) (outs h v).
      Proof. rewrite <- !to_In. rewrite (Hmir v u). reflexivity. Qed.

      Lemma in_to_out acc a b : Reach h DIn acc a b -> RO b a.
      Proof.
        revert a. apply reach_ind_l; [apply reach_refl|].
        intros e [He _] _ IH. unfold is_edge in He. cbn [adj_of] in He. apply mirror_in in He.
        apply (@reach_edge_r _ _ _ _ h DOut b (edst e, esrc e, eval e)); [exact IH|].
        split; [exact He|reflexivity].
      Qed.

      (* the transposed edge of an out-edge whose source is not assigned *)
      Lemma flip_good As assigned e : Vis h As assigned -> goodO e -> ~ In (esrc e) As ->
        good_edge h DIn (unseen assigned) (edst e, esrc e, eval e).
      Proof.
        intros HV Hg Hn. split.
        - unfold is_edge. cbn [adj_of esrc edst eval fst snd]. apply mirror_in. apply Hg.
        - apply (unseen_true (edst e, esrc e, eval e) HV); [exact (src_valid Hwf Hg)|exact Hn].
      Qed.

      Definition CompOK (c : list nat) : Prop := c <> [] /\ forall u, In u c -> forall v, In v c <-> SC h u v.
      Definition P2 (O2 As : list nat) (comps : list (list nat)) : Prop :=
        incl O2 As /\ incl As O /\ NoDup As /\ InClosed As /\ Permutation (concat comps) As /\ Forall CompOK comps.

      Lemma comp_spec O1 x O2 As assigned : O = O1 ++ x :: O2 -> Vis h As assigned -> InClosed As ->
        incl O2 As -> ~ In x As ->
        forall v, Reach h DIn (unseen assigned) x v <-> SC h x v.
      Proof.
        intros HO HV HAi HO2 Hx v.
        assert (HxO : In x O) by (rewrite HO; apply in_or_app; right; now left).
        split.
        - intros HR. pose proof (in_to_out HR) as Hvx.
          destruct (reach_unseen_last HV HR) as [Hv|[Hv _]]; [subst; apply SC_refl|].
          assert (HvO : In v O).
          { revert Hvx. generalize v. apply reach_ind_l; [exact HxO|]. intros e Hg _ Hin. now apply (@HOi _ Hg). }
          destruct (HOl v HvO) as [m [Hvm [Hmv Hall]]].
          assert (HmA : ~ In m As) by (intros Hc; apply Hv; eapply inclosed_reach; eauto).
          destruct (Hall x Hvx) as [Hxm|Hxm].
          + subst m. now split.
          + exfalso. apply HmA. apply HO2. rewrite HO in Hxm, HOnd. eapply before_split_inv; eauto.
        - intros [Hxv Hvx]. revert Hxv. revert v Hvx. apply (@reach_ind_l _ _ _ h DOut (@accept_all E) x
            (fun v => RO x v -> Reach h DIn (unseen assigned) x v)); [intros _; apply reach_refl|].
          intros e Hg Hr IH Hxs.
          assert (Hxd : RO x (edst e)) by (apply reach_edge_r; auto).
          assert (Hn : ~ In (esrc e) As).
          { intros Hc. apply Hx. exact (inclosed_reach HAi Hxs Hc). }
          apply (@reach_edge_r _ _ _ _ h DIn x (edst e, esrc e, eval e)); [now apply IH|].
          now apply (flip_good HV).
      Qed.

      Lemma pass2_step fuel O1 x O2 As assigned comps st comp :
        O = O1 ++ x :: O2 -> Vis h As assigned -> P2 O2 As comps -> ~ In x As ->
        order_nodes keqb (unseen_cb keqb assigned) DIn false fuel h tt x = (st, Some comp) ->
        P2 (x :: O2) (rev comp ++ As) (comps ++ [comp]) /\ Vis h (rev comp ++ As) (mark_all h assigned comp).
      Proof.
        intros HO HV [HO2 [HAO [HAnd [HAi [Hperm Hall]]]]] Hx Hcall.
        assert (HxO : In x O) by (rewrite HO; apply in_or_app; right; now left).
        destruct (call_spec _ _ _ _ (@HOv _ HxO) Hcall) as [pre [pst [S' [_ [_ [Hre [_ Hndc]]]]]]].
        pose proof (@comp_spec O1 x O2 As assigned HO HV HAi HO2 Hx) as Hcs.
        assert (Hc : forall v, In v comp <-> SC h x v) by (intros v; rewrite Hre; apply Hcs).
        assert (HcO : forall v, In v comp -> In v O).
        { intros v Hv. apply Hc in Hv. destruct Hv as [Hv _]. eapply outclosed_reach; eauto. }
        assert (HcA : forall v, In v comp -> ~ In v As).
        { intros v Hv Hin. apply Hc in Hv. destruct Hv as [Hv _]. apply Hx. eapply inclosed_reach; eauto. }
        assert (Hxc : In x comp) by (apply Hc, SC_refl).
        split; [split; [|split; [|split; [|split; [|split]]]]|].
        - intros y [Hy|Hy]; apply in_or_app; [left; subst; now apply in_rev in Hxc|right; now apply HO2].
        - intros y Hy. apply in_app_or in Hy. destruct Hy as [Hy|Hy]; [apply HcO; now apply in_rev|now apply HAO].
        - apply nodup_app_intro; [now apply NoDup_rev|exact HAnd|]. intros a Ha. apply HcA. now apply in_rev.
        - intros e Hg Hin. apply in_or_app. apply in_app_or in Hin. destruct Hin as [Hin|Hin].
          + destruct (in_dec Nat.eq_dec (esrc e) As) as [Hd|Hd]; [now right|]. left. apply -> in_rev.
            apply Hre. apply (@reach_edge_r _ _ _ _ h DIn x (edst e, esrc e, eval e)).
            * apply Hre. now apply in_rev.
            * now apply (flip_good HV).
          + right. now apply (HAi e Hg).
        - rewrite concat_app. cbn [concat]. rewrite app_nil_r.
          eapply Permutation_trans; [apply Permutation_app_comm|].
          apply Permutation_app; [apply Permutation_rev|exact Hperm].
        - apply Forall_app. split; [exact Hall|]. constructor; [|constructor]. split.
          + intros Hnil. rewrite Hnil in Hxc. destruct Hxc.
          + intros u Hu v. rewrite Hc. apply Hc in Hu. split; intros Hv.
            * eapply SC_trans; [apply SC_sym; exact Hu|exact Hv].
            * eapply SC_trans; eauto.
        - apply mark_all_spec; auto.
      Qed.

      Lemma pass2_go fuel : forall stack O2 As assigned comps res,
        O = rev stack ++ O2 -> Vis h As assigned -> P2 O2 As comps ->
        scc_collect keqb fuel h stack assigned comps = Some res ->
        exists As', P2 O As' res.
      Proof.
        induction stack as [|x r IH]; intros O2 As assigned comps res HO HV HP Hgo; cbn [scc_collect] in Hgo.
        - inversion Hgo; subst res. exists As. cbn in HO. now rewrite HO.
        - cbn [rev] in HO. rewrite <- app_assoc in HO. cbn [app] in HO.
          assert (HxO : In x O) by (rewrite HO; apply in_or_app; right; now left).
          destruct (in_vis_dec HV (@HOv _ HxO)) as [[Hq Hin]|[Hq Hin]]; rewrite Hq in Hgo.
          + apply (IH (x :: O2) As assigned comps res HO HV); [|exact Hgo].
            destruct HP as [HO2 HP]. split; [|exact HP]. intros y [Hy|Hy]; [now subst|now apply HO2].
          + destruct (order_nodes keqb (unseen_cb keqb assigned) DIn false fuel h tt x) as [st [comp|]] eqn:Hc;
              [|discriminate].
            destruct (pass2_step fuel (rev r) x HO HV HP Hin Hc) as [HP' HV'].
            apply (IH (x :: O2) _ _ _ res HO HV' HP' Hgo).
      Qed.
    End Pass2.
  End Heap.

  (* ---------------- the two passes put together ---------------- *)
  Lemma members_outclosed (h : heap K V E) g : Closed h g -> OutClosed h (members g).
  Proof.
    intros Hc e [He _] Hin. unfold is_edge in He. cbn [adj_of] in He.
    destruct (Hc _ Hin) as [Ho _]. eapply Ho; eauto.
  Qed.

  Lemma scc_pass1 (h : heap K V E) g order fuel O :
    Wf h -> KeysInj h -> GraphOK h g -> Closed h g -> OrderOK g order ->
    scc_ordering keqb fuel h (g_iter keqb g order) = Some O ->
    P1 h (members g) O /\ (forall x, In x (members g) -> In x O).
  Proof.
    intros Hwf Hinj Hg Hc Ho Hp. unfold scc_ordering in Hp.
    pose proof (g_iter_perm (proj1 Hg) Ho) as Hperm.
    destruct (@pass1_go h Hwf Hinj (members g) (members_valid Hg) (members_outclosed Hc) fuel
                (g_iter keqb g order) [] [] [] O) as [HP [Hall _]]; auto.
    - intros x Hx. apply (Permutation_in _ Hperm Hx).
    - reflexivity.
    - intros x. tauto.
    - split; [constructor|]. split; [intros x []|]. split; [intros e _ []|intros z []].
    - split; [exact HP|]. intros x Hx. apply Hall. apply (Permutation_in _ (Permutation_sym Hperm) Hx).
  Qed.

  Theorem scc_correct : forall (h : heap K V E) (g : graph K) (order : list K) (fuel : nat) (comps : list (list nat)),
     Wf h -> KeysInj h -> Mirror h -> GraphOK h g -> Closed h g -> OrderOK g order ->
     scc keqb fuel h g order = Some comps ->
     Permutation (concat comps) (members g) /\
     Forall (fun c => c <> []) comps /\
     (forall c u v, In c comps -> In u c -> In v c -> SC h u v) /\
     (forall c u v, In c comps -> In u c -> In v (members g) -> SC h u v -> In v c).
  Proof.
    intros h g order fuel comps Hwf Hinj Hmir Hg Hc Ho Hs. unfold scc in Hs.
    destruct (scc_ordering keqb fuel h (g_iter keqb g order)) as [O|] eqn:Hp; [|discriminate].
    destruct (@scc_pass1 h g order fuel O Hwf Hinj Hg Hc Ho Hp) as [[HOnd [HOM [HOc HOl]]] HMO].
    assert (HOv : forall x, In x O -> x < size h).
    { intros x Hx. apply (members_valid Hg). now apply HOM. }
    assert (HOi : InClosed h O).
    { intros e Hge Hin. apply HMO. apply HOM in Hin. destruct (Hc _ Hin) as [_ Hi].
      apply (Hi (esrc e) (eval e)). apply (mirror_in Hmir). apply Hge. }
    destruct (@pass2_go h Hwf Hinj Hmir O HOnd HOv HOc HOi HOl fuel (rev O) [] [] [] [] comps) as [As HP]; auto.
    - now rewrite rev_involutive, app_nil_r.
    - reflexivity.
    - split; [intros x []|]. split; [intros x []|]. split; [constructor|]. split; [intros e _ []|].
      split; [constructor|constructor].
    - destruct HP as [HOA [HAO [HAnd [_ [Hperm Hall]]]]]. rewrite Forall_forall in Hall.
      split; [|split; [|split]].
      + eapply Permutation_trans; [exact Hperm|]. apply NoDup_Permutation; auto.
        * apply (members_nodup Hg).
        * intros x. split; intros Hx; [apply HOM; now apply HAO|apply HOA; now apply HMO].
      + apply Forall_forall. intros c Hin. apply (Hall c Hin).
      + intros c u v Hin Hu Hv. destruct (Hall c Hin) as [_ Hcc]. now apply (Hcc u Hu).
      + intros c u v Hin Hu _ Hsc. destruct (Hall c Hin) as [_ Hcc]. now apply (Hcc u Hu).
  Qed.

  Theorem scc_terminates : forall (h : heap K V E) g order fuel, Wf h -> KeysInj h -> GraphOK h g -> OrderOK g order ->
     fuel_bound h <= fuel -> scc keqb fuel h g order <> None.
  Proof.
    intros h g order fuel Hwf Hinj Hg Ho Hf. unfold scc, scc_ordering.
    destruct (@pass1_terminates h Hwf Hinj fuel Hf (g_iter keqb g order) [] [] (g_iter_valid order Hg))
      as [O' [Hp HO']]; [intros x []|].
    rewrite Hp. apply pass2_terminates; auto. intros x Hx. apply HO'. now apply in_rev.
  Qed.

  Theorem scc_order_independent : forall (h : heap K V E) g o1 o2 fuel c1 c2,
     Wf h -> KeysInj h -> Mirror h -> GraphOK h g -> Closed h g -> OrderOK g o1 -> OrderOK g o2 ->
     scc keqb fuel h g o1 = Some c1 -> scc keqb fuel h g o2 = Some c2 ->
     forall u v, In u (members g) -> In v (members g) ->
       ((exists c, In c c1 /\ In u c /\ In v c) <-> (exists c, In c c2 /\ In u c /\ In v c)).
  Proof.
    intros h g o1 o2 fuel c1 c2 Hwf Hinj Hmir Hg Hc Ho1 Ho2 H1 H2 u v Hu Hv.
    assert (Hgen : forall o cs, OrderOK g o -> scc keqb fuel h g o = Some cs ->
              ((exists c, In c cs /\ In u c /\ In v c) <-> SC h u v)).
    { intros o cs Ho Hs. destruct (@scc_correct h g o fuel cs Hwf Hinj Hmir Hg Hc Ho Hs) as [Hperm [_ [Hsound Hcompl]]]. split.
      - intros [c [Hin [Huc Hvc]]]. eapply Hsound; eauto.
      - intros Hsc. apply (Permutation_in _ (Permutation_sym Hperm)) in Hu. apply in_concat in Hu.
        destruct Hu as [c [Hin Huc]]. exists c. split; [exact Hin|]. split; [exact Huc|]. eapply Hcompl; eauto. }
    rewrite (Hgen o1 c1 Ho1 H1), (Hgen o2 c2 Ho2 H2). tauto.
  Qed.
End SccProof.

Print Assumptions scc_correct.
Print Assumptions scc_terminates.
Print Assumptions scc_order_independent.
