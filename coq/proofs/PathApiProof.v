(* PathApiProof.v — the position-walking node iterator of Path yields the source of the first edge followed by every
   target (= Search.path_nodes), and len counts those nodes for a non-empty path. *)
From Gdsl.Model Require Import Base NodeOps Search PathApi.
From Coq Require Import Lia.

Section PathApiProof.
  Variable E : Type.
  Notation edge := (edge E).

  Lemma iter_from_targets (p : list edge) : forall fuel pos,
      S (length p) - pos <= fuel -> 0 < pos ->
      p_iter_nodes_from fuel p pos = map (@edst E) (skipn (pos - 1) p).
  Proof.
    induction fuel as [|f IH]; intros pos Hf Hp.
    { cbn. rewrite skipn_all2 by lia. reflexivity. }
    destruct pos as [|q]; [lia|]. cbn [p_iter_nodes_from p_node_at].
    replace (S q - 1) with q by lia.
    destruct (nth_error p q) as [e|] eqn:Hn.
    - cbn [option_map].
      assert (Hq : q < length p) by (apply nth_error_Some; congruence).
      rewrite IH by lia.
      replace (S q - 1) with q by lia.
      assert (Hs : skipn q p = e :: skipn (S q) p).
      { clear -Hn. revert q Hn. induction p as [|x r IHp]; intros [|q] Hn; cbn in *; try discriminate.
        - now inversion Hn.
        - now apply IHp. }
      rewrite Hs. reflexivity.
    - cbn [option_map]. apply nth_error_None in Hn. rewrite skipn_all2 by lia. reflexivity.
  Qed.

  Theorem p_iter_nodes_spec (p : list edge) : p_iter_nodes p = path_nodes p.
  Proof.
    unfold p_iter_nodes, path_nodes. destruct p as [|e r]; [reflexivity|].
    remember (S (length (e :: r))) as f eqn:Hf.
    cbn [p_iter_nodes_from p_node_at nth_error option_map].
    rewrite iter_from_targets by (subst f; lia). reflexivity.
  Qed.

  Theorem p_len_counts_nodes (p : list edge) : p <> [] -> p_len p = length (p_iter_nodes p).
  Proof.
    intros Hp. rewrite p_iter_nodes_spec. unfold p_len, path_nodes. destruct p; [congruence|].
    cbn [length]. now rewrite map_length.
  Qed.

  Theorem p_last_node_is_end (p : list edge) (e : edge) : p_last_node (p ++ [e]) = Some (edst e).
  Proof. unfold p_last_node, p_last_edge. rewrite rev_app_distr. reflexivity. Qed.

  (* first_node is the node the path starts at: the first element of iter_nodes, i.e. the source of the first edge *)
  Theorem p_first_node_is_start (p : list edge) (e : edge) :
    p_first_node (e :: p) = Some (esrc e) /\ hd_error (p_iter_nodes (e :: p)) = p_first_node (e :: p).
  Proof. split; reflexivity. Qed.
End PathApiProof.
