(* Backtrack.v — correctness of [backtrack] / [bt_scan] (the model of backtrack_edge_tree). *)
From Coq Require Import List Arith Bool Lia.
From Gdsl.Model Require Import Base NodeOps Search Spec.
Import ListNotations.

Set Implicit Arguments.

Section Backtrack.
  Variables K V E : Type.
  Variable keqb : K -> K -> bool.
  Hypothesis Hk : KeqbSpec keqb.

  Lemma NoDup_snoc : forall (A : Type) (l : list A) (x : A),
      NoDup (l ++ [x]) -> NoDup l /\ ~ In x l.
  Proof.
    intros A l x H. apply NoDup_remove in H. rewrite app_nil_r in H. exact H.
  Qed.

  (* ---------- ids of stored edges are allocated; key comparison is id comparison ---------- *)
  Lemma is_edge_ids : forall (h : heap K V E) d (e : edge E),
      Wf h -> is_edge h d e -> esrc e < size h /\ edst e < size h.
  Proof.
    intros h d e [Hw0 [Hw1 Hw2]] He. unfold is_edge in He.
    split.
    - destruct (lt_dec (esrc e) (size h)) as [Hlt | Hge]; [exact Hlt | exfalso].
      destruct (Hw0 (esrc e)) as [Ho Hi]; [lia |].
      destruct d; cbn [adj_of] in He; rewrite ?Ho, ?Hi in He; cbn in He; exact He.
    - destruct d; cbn [adj_of] in He.
      + eapply Hw1; exact He.
      + eapply Hw2; exact He.
      + apply in_app_or in He. destruct He as [He | He]; [eapply Hw1 | eapply Hw2]; exact He.
  Qed.

  Lemma keyof_some : forall (h : heap K V E) a, a < size h -> exists k, keyof h a = Some k.
  Proof.
    intros h a Ha. unfold keyof, size in *.
    destruct (nth_error (nodes h) a) as [p |] eqn:Hn.
    - exists (fst p). reflexivity.
    - apply nth_error_None in Hn. lia.
  Qed.

  Lemma same_key_id_true : forall (h : heap K V E) a b,
      KeysInj h -> a < size h -> b < size h ->
      (same_key_id keqb h a b = true <-> a = b).
  Proof.
    intros h a b Hinj Ha Hb.
    destruct (keyof_some h Ha) as [ka Hka]. destruct (keyof_some h Hb) as [kb Hkb].
    unfold same_key_id, same_key, has_key. rewrite Hka, Hkb.
    split.
    - intros Heq. apply Hk in Heq. subst kb. eapply Hinj; eassumption.
    - intros Heq. subst b. rewrite Hka in Hkb. inversion Hkb; subst kb. apply Hk. reflexivity.
  Qed.

  (* ---------- the scan ---------- *)
  Section Scan.
    Variable h : heap K V E.
    Variable d : dir.
    Variable accept : edge E -> bool.
    Variable root : nat.
    Variable tree : list (edge E).
    Variable w : edge E.
    Hypothesis HWf : Wf h.
    Hypothesis HInj : KeysInj h.
    Hypothesis Hgood : Forall (good_edge h d accept) tree.

    Lemma tree_same_key : forall x y, In x tree -> In y tree ->
        (same_key_id keqb h (esrc x) (edst y) = true <-> esrc x = edst y).
    Proof.
      intros x y Hx Hy. pose proof (proj1 (Forall_forall _ _) Hgood) as Hg.
      destruct (Hg _ Hx) as [Hex _]. destruct (Hg _ Hy) as [Hey _].
      pose proof (@is_edge_ids h d x HWf Hex) as [Hx1 _]. pose proof (@is_edge_ids h d y HWf Hey) as [_ Hy2].
      apply same_key_id_true; [exact HInj | exact Hx1 | exact Hy2].
    Qed.

    Lemma bt_scan_inv : forall pre cur acc,
        incl pre tree -> incl acc tree ->
        NoDup (map (@edst E) pre) ->
        (forall t1 e t2, pre = t1 ++ e :: t2 -> esrc e = root \/ In (esrc e) (map (@edst E) t1)) ->
        (esrc cur = root \/ In (esrc cur) (map (@edst E) pre)) ->
        (exists a0, acc = cur :: a0) ->
        chain (esrc cur) acc (edst w) ->
        NoDup (map (@edst E) acc) ->
        (forall x, In x (map (@edst E) acc) -> ~ In x (map (@edst E) pre)) ->
        (exists p0, acc = p0 ++ [w]) ->
        let p := bt_scan keqb h cur acc (rev pre) in
        chain root p (edst w) /\ incl p tree /\ NoDup (map (@edst E) p) /\ exists p0, p = p0 ++ [w].
    Proof.
      induction pre as [| e pre' IH] using rev_ind;
        intros cur acc Hpre Hacc Hnd Hsrc Hcur Hhd Hch Hnda Hdisj Hlast.
      - cbn. destruct Hcur as [Hcur | []]. rewrite <- Hcur. auto.
      - rewrite rev_app_distr. cbn [rev app bt_scan].
        assert (Hpre' : incl pre' tree) by (intros x Hx; apply Hpre, in_or_app; left; exact Hx).
        assert (He : In e tree) by (apply Hpre, in_or_app; right; left; reflexivity).
        assert (Hc : In cur tree) by (destruct Hhd as [a0 ->]; apply Hacc; left; reflexivity).
        rewrite map_app in Hnd. cbn [map] in Hnd.
        apply NoDup_snoc in Hnd. destruct Hnd as [Hnd' Hne].
        assert (Hsrc' : forall t1 e0 t2, pre' = t1 ++ e0 :: t2 ->
                   esrc e0 = root \/ In (esrc e0) (map (@edst E) t1)).
        { intros t1 e0 t2 Heq. apply (Hsrc t1 e0 (t2 ++ [e])). rewrite Heq, <- app_assoc. reflexivity. }
        assert (Hdisj' : forall x, In x (map (@edst E) acc) -> ~ In x (map (@edst E) pre')).
        { intros x Hx Hin. apply (Hdisj x Hx). rewrite map_app. apply in_or_app. left. exact Hin. }
        destruct (same_key_id keqb h (esrc cur) (edst e)) eqn:Hsk.
        + apply (tree_same_key cur e Hc He) in Hsk.
          apply IH; auto.
          * intros x [Hx | Hx]; [subst x; exact He | apply Hacc; exact Hx].
          * apply (Hsrc pre' e []). reflexivity.
          * eexists; reflexivity.
          * constructor; [reflexivity | rewrite <- Hsk; exact Hch].
          * cbn [map]. constructor; [| exact Hnda].
            intros Hin. apply (Hdisj _ Hin). rewrite map_app. apply in_or_app. right. left. reflexivity.
          * cbn [map]. intros x [Hx | Hx]; [subst x; exact Hne | apply Hdisj'; exact Hx].
          * destruct Hlast as [p0 ->]. exists (e :: p0). reflexivity.
        + apply IH; auto.
          destruct Hcur as [Hcur | Hcur]; [left; exact Hcur | right].
          rewrite map_app in Hcur. apply in_app_or in Hcur. destruct Hcur as [Hcur | Hcur]; [exact Hcur |].
          exfalso. destruct Hcur as [Hcur | []].
          assert (Ht : same_key_id keqb h (esrc cur) (edst e) = true)
            by (apply (tree_same_key cur e Hc He); symmetry; exact Hcur).
          rewrite Ht in Hsk. discriminate.
    Qed.
  End Scan.

  Theorem backtrack_correct :
    forall (h : heap K V E) (d : dir) (accept : edge E -> bool) (root : nat) (tree t : list (edge E)) (w : edge E),
      Wf h -> KeysInj h -> root < size h ->
      TreeOK h d accept root tree -> RootLast root tree -> tree = t ++ [w] ->
      exists p, backtrack keqb h tree = Some p /\
                IsPath h d accept root p (edst w) /\ p <> [] /\
                (forall e, In e p -> In e tree) /\
                NoDup (map (@edst E) p) /\
                (exists p0, p = p0 ++ [w]).
  Proof.
    intros h d accept root tree t w HWf HInj _ [Hgood [Hnd Hsrc]] _ Htree.
    exists (bt_scan keqb h w [w] (rev t)).
    assert (Hnd2 : NoDup (map (@edst E) t ++ [edst w])).
    { rewrite Htree, map_app in Hnd. exact Hnd. }
    destruct (@bt_scan_inv h d accept root tree w HWf HInj Hgood t w [w])
      as [Hch [Hincl [Hndp Hlast]]].
    - rewrite Htree. apply incl_appl, incl_refl.
    - rewrite Htree. apply incl_appr, incl_refl.
    - apply NoDup_snoc in Hnd2. apply Hnd2.
    - intros t1 e t2 Heq. apply (Hsrc t1 e (t2 ++ [w])). rewrite Htree, Heq, <- app_assoc. reflexivity.
    - destruct (Hsrc t w []) as [Hr | Hr]; [exact Htree | left; exact Hr | right; exact Hr].
    - exists []. reflexivity.
    - constructor; [reflexivity | constructor].
    - cbn. constructor; [intros [] | constructor].
    - cbn [map]. intros x [Hx | []] Hin. subst x.
      apply NoDup_snoc in Hnd2. exact (proj2 Hnd2 Hin).
    - exists []. reflexivity.
    - split; [| split; [| split; [| split; [| split]]]].
      + unfold backtrack. rewrite Htree, rev_app_distr. reflexivity.
      + split; [exact Hch |]. rewrite Forall_forall in *. intros x Hx. apply Hgood, Hincl, Hx.
      + destruct Hlast as [p0 ->]. destruct p0; discriminate.
      + exact Hincl.
      + exact Hndp.
      + exact Hlast.
  Qed.

  Theorem backtrack_nil : forall (h : heap K V E), backtrack keqb h [] = None.
  Proof. intros h. reflexivity. Qed.

End Backtrack.

Print Assumptions backtrack_correct.
Print Assumptions backtrack_nil.
