(* ContainerProof.v — the Graph<K,N,E> container of model/Container.v refines a finite map
   from keys to node ids; its views and DOT exports hand out exactly the members. *)
From Gdsl.Model Require Import Base NodeOps Container Spec.
From Coq Require Import Lia Permutation.

Set Implicit Arguments.

(* ---------------- generic list facts ---------------- *)
Lemma Permutation_filter A (f : A -> bool) (l l' : list A) :
  Permutation l l' -> Permutation (filter f l) (filter f l').
Proof.
  induction 1 as [|x l l' _ IH|x y l|l l' l'' _ IH1 _ IH2]; cbn [filter].
  - constructor.
  - destruct (f x); [now constructor|exact IH].
  - destruct (f x), (f y); try apply Permutation_refl. apply perm_swap.
  - eapply perm_trans; eassumption.
Qed.

Lemma Permutation_flat_map_l A B (f : A -> list B) (l l' : list A) :
  Permutation l l' -> Permutation (flat_map f l) (flat_map f l').
Proof.
  induction 1 as [|x l l' _ IH|x y l|l l' l'' _ IH1 _ IH2]; cbn [flat_map].
  - constructor.
  - now apply Permutation_app_head.
  - rewrite !app_assoc. apply Permutation_app_tail, Permutation_app_comm.
  - eapply perm_trans; eassumption.
Qed.

Lemma nodup_snoc A (l : list A) (x : A) : NoDup l -> ~ In x l -> NoDup (l ++ [x]).
Proof.
  intros Hnd Hn. apply Permutation_NoDup with (l := x :: l).
  - apply Permutation_cons_append.
  - now constructor.
Qed.

Section ContainerProof.
  Variables K V E : Type.
  Variable keqb : K -> K -> bool.
  Hypothesis Hk : KeqbSpec keqb.
  Notation heap := (heap K V E).
  Implicit Types h : heap.
  Implicit Types g : graph K.

  Lemma keqb_eq (a b : K) : keqb a b = true <-> a = b.
  Proof. apply Hk. Qed.

  Lemma keqb_rfl (k : K) : keqb k k = true.
  Proof. now apply Hk. Qed.

  Lemma keqb_neq (a b : K) : a <> b -> keqb a b = false.
  Proof.
    intros Hn. destruct (keqb a b) eqn:Hq; [|reflexivity]. apply Hk in Hq. contradiction.
  Qed.

  Lemma keqb_dec (a b : K) : {a = b} + {a <> b}.
  Proof.
    destruct (keqb a b) eqn:Hq.
    - left. now apply Hk.
    - right. intros ->. rewrite keqb_rfl in Hq. discriminate.
  Qed.

  (* ---------------- g_get ---------------- *)
  Lemma g_get_nil k : g_get keqb (@nil (K * nat)) k = None.
  Proof. reflexivity. Qed.

  Lemma g_get_cons k' u g k :
    g_get keqb ((k', u) :: g) k = if keqb k' k then Some u else g_get keqb g k.
  Proof. unfold g_get. cbn [find fst]. now destruct (keqb k' k). Qed.

  Lemma g_get_some_in g k u : g_get keqb g k = Some u -> In (k, u) g.
  Proof.
    induction g as [|[k' u'] g IH]; [discriminate|].
    rewrite g_get_cons. destruct (keqb k' k) eqn:Hq.
    - intros [= ->]. apply Hk in Hq. subst. now left.
    - intros H. right. now apply IH.
  Qed.

  Lemma g_get_none_notin g k : g_get keqb g k = None <-> ~ In k (map fst g).
  Proof.
    induction g as [|[k' u'] g IH]; [cbn; tauto|].
    rewrite g_get_cons. cbn [map fst In]. destruct (keqb k' k) eqn:Hq.
    - apply Hk in Hq. subst. split; [discriminate|]. intros H. exfalso. apply H. now left.
    - rewrite IH. split.
      + intros H [->|H1]; [rewrite keqb_rfl in Hq; discriminate|contradiction].
      + intros H H1. apply H. now right.
  Qed.

  Lemma g_get_in_nodup g k u : NoDup (map fst g) -> In (k, u) g -> g_get keqb g k = Some u.
  Proof.
    induction g as [|[k' u'] g IH]; [intros _ []|].
    cbn [map fst]. intros Hnd. inversion Hnd as [|? ? Hnin Hnd']; subst.
    rewrite g_get_cons. intros [[= -> ->]|Hin].
    - now rewrite keqb_rfl.
    - destruct (keqb k' k) eqn:Hq.
      + apply Hk in Hq. subst. exfalso. apply Hnin. change k with (fst (k, u)). now apply in_map.
      + now apply IH.
  Qed.

  Lemma g_contains_true g k : g_contains keqb g k = true <-> In k (map fst g).
  Proof.
    unfold g_contains. destruct (g_get keqb g k) as [u|] eqn:Hg.
    - split; [intros _|reflexivity]. apply g_get_some_in in Hg.
      change k with (fst (k, u)). now apply in_map.
    - split; [discriminate|]. intros Hin. apply g_get_none_notin in Hg. contradiction.
  Qed.

  Lemma g_contains_false g k : g_contains keqb g k = false <-> ~ In k (map fst g).
  Proof.
    rewrite <- g_contains_true. destruct (g_contains keqb g k); split; congruence.
  Qed.

  Lemma g_contains_get g k : g_contains keqb g k = true <-> exists u, g_get keqb g k = Some u.
  Proof.
    unfold g_contains. destruct (g_get keqb g k) as [u|].
    - split; [intros _; now exists u|reflexivity].
    - split; [discriminate|intros [u [=]]].
  Qed.

  Lemma g_contains_get_none g k : g_contains keqb g k = false <-> g_get keqb g k = None.
  Proof.
    unfold g_contains. destruct (g_get keqb g k) as [u|]; split; congruence.
  Qed.

  Lemma g_get_app g1 g2 k :
    g_get keqb (g1 ++ g2) k = match g_get keqb g1 k with Some u => Some u | None => g_get keqb g2 k end.
  Proof.
    induction g1 as [|[k' u'] g1 IH]; [reflexivity|].
    rewrite <- app_comm_cons, !g_get_cons. destruct (keqb k' k); [reflexivity|exact IH].
  Qed.

  Lemma g_get_snoc_same g k u : g_contains keqb g k = false -> g_get keqb (g ++ [(k, u)]) k = Some u.
  Proof.
    intros Hc. apply g_contains_get_none in Hc. rewrite g_get_app, Hc, g_get_cons, keqb_rfl. reflexivity.
  Qed.

  Lemma g_get_snoc_other g k u k' : k' <> k -> g_get keqb (g ++ [(k, u)]) k' = g_get keqb g k'.
  Proof.
    intros Hn. rewrite g_get_app, g_get_cons, keqb_neq by congruence.
    now destruct (g_get keqb g k').
  Qed.

  Lemma graphok_snoc h g k u :
    GraphOK h g -> g_contains keqb g k = false -> keyof h u = Some k -> u < size h ->
    GraphOK h (g ++ [(k, u)]).
  Proof.
    intros (Hnd & Hb) Hc Hku Hu. split.
    - rewrite map_app. cbn [map fst]. apply nodup_snoc; [exact Hnd|now apply g_contains_false].
    - intros k0 u0 Hin. apply in_app_or in Hin. destruct Hin as [Hin|[[= <- <-]|[]]].
      + now apply Hb.
      + now split.
  Qed.

  (* ---------------- g_remove ---------------- *)
  Lemma g_get_filter_same g k : g_get keqb (filter (fun p => negb (keqb (fst p) k)) g) k = None.
  Proof.
    induction g as [|[k' u'] g IH]; [reflexivity|].
    cbn [filter fst]. destruct (keqb k' k) eqn:Hq; cbn [negb]; [exact IH|].
    now rewrite g_get_cons, Hq.
  Qed.

  Lemma g_get_filter_other g k k' : k' <> k ->
    g_get keqb (filter (fun p => negb (keqb (fst p) k)) g) k' = g_get keqb g k'.
  Proof.
    intros Hn. induction g as [|[k0 u0] g IH]; [reflexivity|].
    cbn [filter fst]. destruct (keqb k0 k) eqn:Hq; cbn [negb].
    - apply Hk in Hq. subst k0. rewrite g_get_cons, keqb_neq by congruence. exact IH.
    - rewrite !g_get_cons, IH. reflexivity.
  Qed.

  Lemma nodup_map_filter A B (f : A -> B) (p : A -> bool) (l : list A) :
    NoDup (map f l) -> NoDup (map f (filter p l)).
  Proof.
    induction l as [|x l IH]; [intros; constructor|].
    cbn [map filter]. intros Hnd. inversion Hnd as [|? ? Hnin Hnd']; subst.
    destruct (p x); [|now apply IH]. cbn [map]. constructor; [|now apply IH].
    intros Hin. apply Hnin. apply in_map_iff in Hin. destruct Hin as (y & Hy & Hin).
    apply filter_In in Hin. rewrite <- Hy. apply in_map. tauto.
  Qed.

  Lemma filter_len_nodup g k : NoDup (map fst g) ->
    length (filter (fun p => negb (keqb (fst p) k)) g) =
    length g - match g_get keqb g k with Some _ => 1 | None => 0 end.
  Proof.
    induction g as [|[k' u'] g IH]; [reflexivity|].
    cbn [map fst]. intros Hnd. inversion Hnd as [|? ? Hnin Hnd']; subst.
    cbn [filter fst]. rewrite g_get_cons. destruct (keqb k' k) eqn:Hq; cbn [negb length].
    - apply Hk in Hq. subst k'. rewrite IH by assumption.
      apply g_get_none_notin in Hnin. rewrite Hnin. lia.
    - rewrite IH by assumption. destruct (g_get keqb g k) as [u|] eqn:Hg; [|lia].
      apply g_get_some_in in Hg. destruct g; [destruct Hg|]. cbn [length]. lia.
  Qed.

  (* ---------------- iteration ---------------- *)
  Lemma g_iter_incl g g' :
    (forall k u, In (k, u) g' -> g_get keqb g k = Some u) ->
    g_iter keqb g (map fst g') = map snd g'.
  Proof.
    induction g' as [|[k u] g' IH]; intros H; [reflexivity|].
    unfold g_iter in *. cbn [map flat_map fst snd]. rewrite (H k u) by now left.
    cbn [app]. f_equal. apply IH. intros k0 u0 Hin. apply H. now right.
  Qed.

  Lemma g_iter_self g : NoDup (map fst g) -> g_iter keqb g (map fst g) = members g.
  Proof.
    intros Hnd. apply g_iter_incl. intros k u Hin. now apply g_get_in_nodup.
  Qed.

  Lemma g_iter_perm_ h g order :
    GraphOK h g -> OrderOK g order -> Permutation (g_iter keqb g order) (members g).
  Proof.
    intros (Hnd & _) Ho. rewrite <- (@g_iter_self g Hnd). unfold g_iter.
    apply Permutation_flat_map_l. exact Ho.
  Qed.

  (* ---------------- the required theorems ---------------- *)
  Theorem g_get_in : forall h g k u, GraphOK h g -> (g_get keqb g k = Some u <-> In (k, u) g).
  Proof.
    intros h g k u (Hnd & _). split; [apply g_get_some_in|now apply g_get_in_nodup].
  Qed.

  Theorem g_contains_spec : forall g k, g_contains keqb g k = true <-> In k (map fst g).
  Proof. exact g_contains_true. Qed.

  Theorem g_insert_spec : forall h g u k, GraphOK h g -> u < size h -> keyof h u = Some k ->
    (g_contains keqb g k = true /\ g_insert keqb h g u = (g, false)) \/
    (g_contains keqb g k = false /\ g_insert keqb h g u = (g ++ [(k, u)], true) /\ GraphOK h (g ++ [(k, u)]) /\
     g_get keqb (g ++ [(k, u)]) k = Some u /\ (forall k', k' <> k -> g_get keqb (g ++ [(k, u)]) k' = g_get keqb g k')).
  Proof.
    intros h g u k HG Hu Hku. unfold g_insert. rewrite Hku.
    destruct (g_contains keqb g k) eqn:Hc; [left; now split|right].
    split; [reflexivity|]. split; [reflexivity|]. split; [now apply graphok_snoc|].
    split; [now apply g_get_snoc_same|]. intros k' Hn. now apply g_get_snoc_other.
  Qed.

  Theorem g_remove_spec : forall h g k g' r, GraphOK h g -> g_remove keqb g k = (g', r) ->
    r = g_get keqb g k /\ GraphOK h g' /\ g_get keqb g' k = None /\ (forall k', k' <> k -> g_get keqb g' k' = g_get keqb g k') /\
    g_len g' = g_len g - (match r with Some _ => 1 | None => 0 end).
  Proof.
    intros h g k g' r (Hnd & Hb). unfold g_remove. intros [= <- <-].
    split; [reflexivity|]. split; [|split; [|split]].
    - split; [now apply nodup_map_filter|]. intros k0 u0 Hin. apply filter_In in Hin. apply Hb, Hin.
    - apply g_get_filter_same.
    - intros k' Hn. now apply g_get_filter_other.
    - unfold g_len. now apply filter_len_nodup.
  Qed.

  Theorem g_len_spec : forall g, g_len g = length (map fst g) /\ (g_is_empty g = true <-> g = []).
  Proof.
    intros g. split; [unfold g_len; now rewrite map_length|].
    destruct g; cbn; split; congruence.
  Qed.

  (* the run-time test the driver applies to every observed iteration order is sound for the hypothesis OrderOK *)
  Lemma nodupb_sound (l : list K) : nodupb keqb l = true -> NoDup l.
  Proof.
    induction l as [|x r IH]; intros Hb; [constructor|]. cbn [nodupb] in Hb. apply Bool.andb_true_iff in Hb. destruct Hb as [Hx Hr].
    constructor; [|apply IH; exact Hr]. intro Hin. apply Bool.negb_true_iff in Hx.
    assert (Hex : existsb (keqb x) r = true). { apply existsb_exists. exists x. split; [exact Hin|]. apply Hk. reflexivity. }
    congruence.
  Qed.

  Theorem order_okb_sound : forall h g order, GraphOK h g -> order_okb keqb g order = true -> OrderOK g order.
  Proof.
    intros h g order [Hnd _] Hb. unfold order_okb in Hb. apply Bool.andb_true_iff in Hb. destruct Hb as [Hb Hall].
    apply Bool.andb_true_iff in Hb. destruct Hb as [Hnodup Hlen]. apply Nat.eqb_eq in Hlen.
    unfold OrderOK. apply NoDup_Permutation_bis.
    - apply nodupb_sound. exact Hnodup.
    - rewrite map_length. lia.
    - intros k Hin. rewrite forallb_forall in Hall. apply g_contains_true. apply Hall. exact Hin.
  Qed.

  Theorem g_iter_perm : forall h g order, GraphOK h g -> OrderOK g order -> Permutation (g_iter keqb g order) (members g).
  Proof. exact g_iter_perm_. Qed.

  Theorem g_views_perm : forall h g order, GraphOK h g -> OrderOK g order ->
    Permutation (g_roots keqb h g order) (filter (is_root h) (members g)) /\
    Permutation (g_leaves keqb h g order) (filter (is_leaf h) (members g)) /\
    Permutation (g_orphans keqb h g order) (filter (is_orphan h) (members g)).
  Proof.
    intros h g order HG Ho. pose proof (g_iter_perm_ HG Ho) as HP.
    unfold g_roots, g_leaves, g_orphans. repeat split; now apply Permutation_filter.
  Qed.

  Theorem g_to_dot_perm : forall directed h g order, GraphOK h g -> OrderOK g order ->
    Permutation (g_to_dot keqb directed h g order)
                (flat_map (fun u => NodeStmt E u false :: map (fun p => EdgeStmt u (fst p) (snd p) false) (into_iter directed h u)) (members g)).
  Proof.
    intros directed h g order HG Ho. unfold g_to_dot.
    apply Permutation_flat_map_l. now apply g_iter_perm_ with (h := h).
  Qed.

  Theorem g_to_dot_attr_perm : forall directed h g order ngattr nattr eattr, GraphOK h g -> OrderOK g order ->
    Permutation (g_to_dot_attr keqb directed h g order ngattr nattr eattr)
                (map (@GraphAttr E) (iota 0 ngattr) ++ map (fun u => NodeStmt E u (nattr u)) (members g) ++
                 flat_map (fun u => map (fun p => EdgeStmt u (fst p) (snd p) (eattr u (fst p) (snd p))) (into_iter directed h u)) (members g)).
  Proof.
    intros directed h g order ngattr nattr eattr HG Ho. unfold g_to_dot_attr.
    pose proof (g_iter_perm_ HG Ho) as HP.
    apply Permutation_app_head. apply Permutation_app.
    - now apply Permutation_map.
    - now apply Permutation_flat_map_l.
  Qed.
End ContainerProof.

Print Assumptions g_get_in.
Print Assumptions g_contains_spec.
Print Assumptions g_insert_spec.
Print Assumptions g_remove_spec.
Print Assumptions g_len_spec.
Print Assumptions g_iter_perm.
Print Assumptions g_views_perm.
Print Assumptions g_to_dot_perm.
Print Assumptions g_to_dot_attr_perm.
