(* ConcClassProof.v — C17 restricted to the scenarios OUTSIDE the documented interference classes,
   on a bounded scenario space that is enumerated completely and decided by computation inside Coq.

   Scenario space (both flavours):
     heaps     : two nodes, ids 0 and 1, keys 5 and 3; EVERY initial edge list of length <= 2 over the
                 4 ordered pairs of nodes (self-loops and parallel edges included), edge value 10: 21 heaps;
     calls     : every call of Conc.call on these two nodes (28 directed, 24 undirected);
     scenarios : two threads with one call each: every ordered pair of calls on every heap
                 (directed 21*28*28 = 16464, undirected 21*24*24 = 12096);
     schedules : ALL maximal interleavings of the critical sections (Conc.explore, schedule fuel 200; the
                 longest schedule of an out-of-class scenario has far fewer steps, see [small_sched_len_*]).
   Statement: every scenario of the space for which [known_class] answers None is [scenario_good]:
   every schedule ends without panic/poison, with all threads done, and with an outcome (results,
   poisoned locks, final graph) equal to the outcome of a SERIAL schedule of the same scenario. *)
From Gdsl.Model Require Import Base NodeOps Conc ConcClass.
From Gdsl.Proofs Require Import NodeLemmas ConcProof.
From Coq Require Import List Arith Bool Lia.
Import ListNotations.
Set Warnings "-abstract-large-number".

(* ------------------------------------------------------------------ *)
(* 1. the bounded scenario space                                       *)
(* ------------------------------------------------------------------ *)
Definition nodes2 : list nat := [0; 1].
Definition keys2 : list nat := [5; 3].
Definition pairs2 : list (nat * nat) := [(0, 0); (0, 1); (1, 0); (1, 1)].

(* all edge lists of length <= 1 / <= 2 over the four ordered pairs *)
Definition edge_lists1 : list (list (nat * nat)) := [] :: map (fun p => [p]) pairs2.
Definition edge_lists2 : list (list (nat * nat)) :=
  edge_lists1 ++ flat_map (fun p => map (fun q => [p; q]) pairs2) pairs2.

Definition mk_heap (directed : bool) (es : list (nat * nat)) : heap nat nat nat :=
  let ops := [ONew 5 0; ONew 3 0] ++ map (fun p => OConnect (fst p) (snd p) 10) es in
  if directed then fst (run_d Nat.eqb ops) else fst (run_u Nat.eqb ops).

Definition small_heaps (directed : bool) : list (heap nat nat nat) := map (mk_heap directed) edge_lists2.

Definition small_calls (directed : bool) : list (call nat nat) :=
  map (fun p => CConnect nat (fst p) (snd p) 7) pairs2 ++
  map (fun p => CTryConnect nat (fst p) (snd p) 8) pairs2 ++
  flat_map (fun u => map (fun k => CDisconnect nat u k) keys2) nodes2 ++
  flat_map (fun u => map (fun k => CIsConnected nat u k) keys2) nodes2 ++
  map (fun u => CIsolate nat nat u) nodes2 ++
  map (fun u => CDegree nat nat u) nodes2 ++
  map (fun u => CIsOrphan nat nat u) nodes2 ++
  map (fun u => CIter nat nat u) nodes2 ++
  (if directed
   then map (fun u => CInDegree nat nat u) nodes2 ++ map (fun u => CIterIn nat nat u) nodes2
   else []).

Definition scenarios_on (directed : bool) (h : heap nat nat nat)
  : list (heap nat nat nat * list (list (call nat nat))) :=
  flat_map (fun a => map (fun b => (h, [[a]; [b]])) (small_calls directed)) (small_calls directed).

Definition small_scenarios (directed : bool) : list (heap nat nat nat * list (list (call nat nat))) :=
  flat_map (scenarios_on directed) (small_heaps directed).

(* the check of one scenario *)
Definition outside_good (directed : bool) (sc : heap nat nat nat * list (list (call nat nat))) : bool :=
  match known_class Nat.eqb directed (fst sc) (snd sc) with
  | Some _ => true
  | None => scenario_good Nat.eqb Nat.eqb directed 200 (fst sc) (snd sc)
  end.

Definition outside (directed : bool) (sc : heap nat nat nat * list (list (call nat nat))) : bool :=
  negb (is_some_class (known_class Nat.eqb directed (fst sc) (snd sc))).

(* ------------------------------------------------------------------ *)
(* 2. sanity: the space and the decision are not vacuous               *)
(* ------------------------------------------------------------------ *)
Example small_calls_count : length (small_calls true) = 28 /\ length (small_calls false) = 24.
Proof. vm_compute. split; reflexivity. Qed.

Example small_heaps_count : length (small_heaps true) = 21 /\ length (small_heaps false) = 21.
Proof. vm_compute. split; reflexivity. Qed.

Example small_scenarios_count :
  length (small_scenarios true) = 16464 /\ length (small_scenarios false) = 12096.
Proof. vm_compute. split; reflexivity. Qed.

(* scenarios outside every class: about half of the space *)
Example small_outside_count :
  length (filter (outside true) (small_scenarios true)) = 8064 /\
  length (filter (outside false) (small_scenarios false)) = 4788.
Proof. vm_compute. split; reflexivity. Qed.

(* ... and many of them are real interference: the two calls touch a common node, one of them a mutation *)
Definition is_mutation (c : call nat nat) : bool :=
  match c with
  | CConnect _ _ _ _ | CTryConnect _ _ _ _ | CDisconnect _ _ _ | CIsolate _ _ _ => true
  | _ => false
  end.
Definition interfering (sc : heap nat nat nat * list (list (call nat nat))) : bool :=
  match snd sc with
  | [[a]; [b]] => shares (call_nodes Nat.eqb (fst sc) a) (call_nodes Nat.eqb (fst sc) b) && (is_mutation a || is_mutation b)
  | _ => false
  end.
Example small_outside_interfering_count :
  length (filter (fun sc => outside true sc && interfering sc) (small_scenarios true)) = 2058 /\
  length (filter (fun sc => outside false sc && interfering sc) (small_scenarios false)) = 1302.
Proof. vm_compute. split; reflexivity. Qed.

(* the schedules explored for the out-of-class scenarios: their total number, the largest number for one
   scenario, and the longest one (so the schedule fuel 200 is never the reason a schedule ends) *)
Definition scheds_of (directed : bool) (sc : heap nat nat nat * list (list (call nat nat))) : list (list nat) :=
  explore Nat.eqb directed 200 (init_config Nat.eqb directed (fst sc) (snd sc)) [].
Definition max_list (l : list nat) : nat := fold_right Nat.max 0 l.
Definition sum_list (l : list nat) : nat := fold_right Nat.add 0 l.

Example small_sched_count_d :
  sum_list (map (fun sc => length (scheds_of true sc)) (filter (outside true) (small_scenarios true))) = 29356 /\
  max_list (map (fun sc => length (scheds_of true sc)) (filter (outside true) (small_scenarios true))) = 20.
Proof. vm_compute. split; reflexivity. Qed.
Example small_sched_count_u :
  sum_list (map (fun sc => length (scheds_of false sc)) (filter (outside false) (small_scenarios false))) = 19828 /\
  max_list (map (fun sc => length (scheds_of false sc)) (filter (outside false) (small_scenarios false))) = 252.
Proof. vm_compute. split; reflexivity. Qed.
Example small_sched_len_d :
  max_list (map (fun sc => max_list (map (@length nat) (scheds_of true sc))) (filter (outside true) (small_scenarios true))) = 6.
Proof. vm_compute. reflexivity. Qed.
Example small_sched_len_u :
  max_list (map (fun sc => max_list (map (@length nat) (scheds_of false sc))) (filter (outside false) (small_scenarios false))) = 10.
Proof. vm_compute. reflexivity. Qed.

(* the refutation scenarios of ConcProof are in a class ... *)
Example refuted_panic_in_class :
  known_class Nat.eqb true heap2_edge [[CIsolate nat nat 0]; [CConnect nat 0 1 7]] = Some KIsolate.
Proof. vm_compute. reflexivity. Qed.
Example refuted_half_edge_in_class :
  known_class Nat.eqb true heap2 [[CConnect nat 0 1 7]; [CDisconnect nat 0 3]] = Some KDisconnect.
Proof. vm_compute. reflexivity. Qed.
Example refuted_order_in_class :
  known_class Nat.eqb true heap2 [[CConnect nat 0 1 7]; [CConnect nat 0 1 8]] = Some KConSamePair.
Proof. vm_compute. reflexivity. Qed.
Example refuted_try_in_class :
  known_class Nat.eqb true heap2 [[CTryConnect nat 0 1 7]; [CTryConnect nat 0 1 8]] = Some KTryConnect.
Proof. vm_compute. reflexivity. Qed.
Example refuted_undirected_iter_in_class :
  known_class Nat.eqb false heap2_u [[CIter nat nat 0]; [CConnect nat 0 1 7]] = Some KUndirIterShift.
Proof. vm_compute. reflexivity. Qed.

(* ... and the decision rejects each of them: [scenario_good] is not trivially true *)
Example refuted_panic_not_good :
  scenario_good Nat.eqb Nat.eqb true 200 heap2_edge [[CIsolate nat nat 0]; [CConnect nat 0 1 7]] = false.
Proof. vm_compute. reflexivity. Qed.
Example refuted_half_edge_not_good :
  scenario_good Nat.eqb Nat.eqb true 200 heap2 [[CConnect nat 0 1 7]; [CDisconnect nat 0 3]] = false.
Proof. vm_compute. reflexivity. Qed.
Example refuted_order_not_good :
  scenario_good Nat.eqb Nat.eqb true 200 heap2 [[CConnect nat 0 1 7]; [CConnect nat 0 1 8]] = false.
Proof. vm_compute. reflexivity. Qed.
Example refuted_try_not_good :
  scenario_good Nat.eqb Nat.eqb true 200 heap2 [[CTryConnect nat 0 1 7]; [CTryConnect nat 0 1 8]] = false.
Proof. vm_compute. reflexivity. Qed.
Example refuted_undirected_iter_not_good :
  scenario_good Nat.eqb Nat.eqb false 200 heap2_u [[CIter nat nat 0]; [CConnect nat 0 1 7]] = false.
Proof. vm_compute. reflexivity. Qed.

(* ------------------------------------------------------------------ *)
(* 3. what the decision means (general: any K V E, any scenario)       *)
(* ------------------------------------------------------------------ *)
Section Meaning.
  Variables K V E : Type.
  Variable keqb : K -> K -> bool.
  Variable eeqb : E -> E -> bool.

  Lemma good_schedule_spec : forall directed fuel (c0 : config K V E) all_scheds sched,
    good_schedule keqb eeqb directed fuel c0 all_scheds sched = true ->
    no_panic (final keqb directed fuel c0 sched) = true /\
    all_done (final keqb directed fuel c0 sched) = true /\
    exists s, In s all_scheds /\
              serial_from keqb directed c0 None false s = true /\
              outcome_eqb eeqb (final keqb directed fuel c0 s) (final keqb directed fuel c0 sched) = true.
  Proof.
    intros directed fuel c0 all_scheds sched H.
    unfold good_schedule in H.
    apply andb_true_iff in H. destruct H as [H Hex].
    apply andb_true_iff in H. destruct H as [Hnp Hdone].
    apply existsb_exists in Hex. destruct Hex as [s [Hin Hs]].
    apply andb_true_iff in Hs. destruct Hs as [Hser Hout].
    split; [exact Hnp|]. split; [exact Hdone|].
    exists s. split; [exact Hin|]. split; [exact Hser|exact Hout].
  Qed.

  Lemma scenario_good_spec : forall directed fuel (h : heap K V E) threads,
    scenario_good keqb eeqb directed fuel h threads = true ->
    forall sched, In sched (explore keqb directed fuel (init_config keqb directed h threads) []) ->
      good_schedule keqb eeqb directed fuel (init_config keqb directed h threads)
                    (explore keqb directed fuel (init_config keqb directed h threads) []) sched = true.
  Proof.
    intros directed fuel h threads H sched Hin.
    unfold scenario_good in H.
    rewrite forallb_forall in H. apply H. exact Hin.
  Qed.
End Meaning.

(* ------------------------------------------------------------------ *)
(* 4. the bounded theorem                                              *)
(* ------------------------------------------------------------------ *)
Lemma outside_good_d : forallb (outside_good true) (small_scenarios true) = true.
Proof. Time vm_compute. reflexivity. Time Qed.

Lemma outside_good_u : forallb (outside_good false) (small_scenarios false) = true.
Proof. Time vm_compute. reflexivity. Time Qed.

(* extra: the directed flavour also with every initial edge list of length <= 3 (85 heaps, 66640 scenarios).
   (The undirected counterpart also evaluates to true, but takes about half an hour; it is not part of this file.) *)
Definition edge_lists3 : list (list (nat * nat)) :=
  edge_lists2 ++ flat_map (fun p => flat_map (fun q => map (fun r => [p; q; r]) pairs2) pairs2) pairs2.
Definition scenarios3 (directed : bool) : list (heap nat nat nat * list (list (call nat nat))) :=
  flat_map (scenarios_on directed) (map (mk_heap directed) edge_lists3).

Example scenarios3_count :
  length edge_lists3 = 85 /\ Nat.eqb (length (filter (outside true) (scenarios3 true))) 32640 = true.
Proof. split; vm_compute; reflexivity. Qed.

Theorem c17_len3_directed_outside_classes_good :
  forallb (outside_good true) (scenarios3 true) = true.
Proof. Time vm_compute. reflexivity. Time Qed.

Theorem c17_small_outside_classes_good : forall directed,
  forallb (fun sc => match known_class Nat.eqb directed (fst sc) (snd sc) with
                     | Some _ => true
                     | None => scenario_good Nat.eqb Nat.eqb directed 200 (fst sc) (snd sc)
                     end) (small_scenarios directed) = true.
Proof.
  intros directed. destruct directed.
  - exact outside_good_d.
  - exact outside_good_u.
Qed.

Theorem c17_small_outside_classes_good_forall : forall directed h threads,
  In (h, threads) (small_scenarios directed) ->
  known_class Nat.eqb directed h threads = None ->
  scenario_good Nat.eqb Nat.eqb directed 200 h threads = true.
Proof.
  intros directed h threads Hin Hnone.
  pose proof (c17_small_outside_classes_good directed) as H.
  rewrite forallb_forall in H.
  specialize (H (h, threads) Hin).
  cbn beta iota delta [fst snd] in H.
  rewrite Hnone in H. exact H.
Qed.

(* the same, spelled out: every maximal schedule of every out-of-class scenario of the space ends without
   panic or poisoned lock, with both threads done, and with the outcome of a serial schedule *)
Corollary c17_small_outside_classes_serialisable : forall directed h threads sched,
  In (h, threads) (small_scenarios directed) ->
  known_class Nat.eqb directed h threads = None ->
  let c0 := init_config Nat.eqb directed h threads in
  In sched (explore Nat.eqb directed 200 c0 []) ->
  no_panic (final Nat.eqb directed 200 c0 sched) = true /\
  all_done (final Nat.eqb directed 200 c0 sched) = true /\
  exists s, In s (explore Nat.eqb directed 200 c0 []) /\   (* s is itself a MAXIMAL schedule (a serial prefix would not do) *)
            serial_from Nat.eqb directed c0 None false s = true /\
            outcome_eqb Nat.eqb (final Nat.eqb directed 200 c0 s) (final Nat.eqb directed 200 c0 sched) = true.
Proof.
  intros directed h threads sched Hin Hnone c0 Hs.
  pose proof (c17_small_outside_classes_good_forall directed h threads Hin Hnone) as Hg.
  pose proof (scenario_good_spec nat nat nat Nat.eqb Nat.eqb directed 200 h threads Hg sched Hs) as Hgs.
  apply good_schedule_spec in Hgs.
  destruct Hgs as [Hnp [Hd [s [Hins [Hser Hout]]]]].
  split; [exact Hnp|]. split; [exact Hd|].
  exists s. split; [exact Hins|]. split; [exact Hser|exact Hout].
Qed.

Print Assumptions good_schedule_spec.
Print Assumptions scenario_good_spec.
Print Assumptions c17_len3_directed_outside_classes_good.
Print Assumptions c17_small_outside_classes_good.
Print Assumptions c17_small_outside_classes_good_forall.
Print Assumptions c17_small_outside_classes_serialisable.
