(* MutationProof.v — C20: node operations may be called while an edge loop or a traversal is in
   progress (from the loop body / the for_each / filter closure).  All statements are about the
   machines of Search.v run with an ARBITRARY heap-changing callback. *)
From Gdsl.Model Require Import Base NodeOps Search Callback Spec Mutation.
From Gdsl.Proofs Require NodeLemmas NodeList NodeD NodeListU NodeU.
From Coq Require Import Lia.

Set Implicit Arguments.

(* ------------------------------------------------------------------ *)
(* positions                                                           *)
(* ------------------------------------------------------------------ *)
Section Positions.
  Variables K V E : Type.
  Notation heap := (heap K V E).
  Notation edge := (edge E).

  Lemma adj_at_nth (h : heap) u pos : adj_at h u pos = nth_error (outs h u ++ ins h u) pos.
  Proof.
    unfold adj_at. destruct (nth_error (outs h u) pos) as [x|] eqn:Hn.
    - symmetry. rewrite nth_error_app1; [exact Hn|]. apply nth_error_Some. congruence.
    - apply nth_error_None in Hn. now rewrite nth_error_app2.
  Qed.

  Lemma edge_at_nth (h : heap) d u pos :
    edge_at h d u pos = option_map (fun p => (u, fst p, snd p)) (nth_error (adj_of h d u) pos).
  Proof. destruct d; cbn [edge_at adj_of]; try reflexivity. now rewrite adj_at_nth. Qed.

  Lemma edge_at_some (h : heap) d u pos e : edge_at h d u pos = Some e ->
    esrc e = u /\ In (edst e, eval e) (adj_of h d u) /\ pos < length (adj_of h d u).
  Proof.
    rewrite edge_at_nth. destruct (nth_error (adj_of h d u) pos) as [p|] eqn:Hn; [|discriminate].
    cbn [option_map]. intros Heq. injection Heq as <-.
    unfold esrc, edst, eval. cbn [fst snd]. split; [reflexivity|]. split.
    - destruct p as [v x]. cbn [fst snd]. eapply nth_error_In. exact Hn.
    - apply nth_error_Some. congruence.
  Qed.

  Lemma edge_at_trav (h : heap) d u pos e : edge_at h d u pos = Some e -> is_trav_edge h d e.
  Proof.
    intros H. destruct (edge_at_some _ _ _ _ H) as (Hs & Hin & _).
    unfold is_trav_edge. now rewrite Hs.
  Qed.

  Lemma iter_edge_some (h : heap) d u pos e : iter_edge h d u pos = Some e ->
    is_iter_edge h d e /\ (match d with DIn => edst e = u | _ => esrc e = u end) /\
    pos < length (adj_of h d u).
  Proof.
    destruct d; cbn [iter_edge adj_of is_iter_edge]; try rewrite adj_at_nth.
    - destruct (nth_error (outs h u) pos) as [[v x]|] eqn:Hn; [|discriminate].
      cbn [option_map fst snd]. intros Heq. injection Heq as <-.
      unfold esrc, edst, eval. cbn [fst snd]. split; [|split; [reflexivity|]].
      + eapply nth_error_In. exact Hn.
      + apply nth_error_Some. congruence.
    - destruct (nth_error (ins h u) pos) as [[v x]|] eqn:Hn; [|discriminate].
      cbn [option_map fst snd]. intros Heq. injection Heq as <-.
      unfold esrc, edst, eval. cbn [fst snd]. split; [|split; [reflexivity|]].
      + eapply nth_error_In. exact Hn.
      + apply nth_error_Some. congruence.
    - destruct (nth_error (outs h u ++ ins h u) pos) as [[v x]|] eqn:Hn; [|discriminate].
      cbn [option_map fst snd]. intros Heq. injection Heq as <-.
      unfold esrc, edst, eval. cbn [fst snd]. split; [|split; [reflexivity|]].
      + eapply nth_error_In. exact Hn.
      + apply nth_error_Some. congruence.
  Qed.
End Positions.

(* ------------------------------------------------------------------ *)
(* 1. erasure of the log wrapper                                       *)
(* ------------------------------------------------------------------ *)
Section Erase.
  Variables K V E : Type.
  Variable keqb : K -> K -> bool.
  Notation heap := (heap K V E).
  Notation edge := (edge E).
  Variable CB : Type.
  Variable cb : CB -> heap -> edge -> CB * heap * bool.
  Notation LCB := (CB * list (heap * edge))%type.

  Definition erase_st (st : sst K V E LCB) : sst K V E CB :=
    mkS (s_heap st) (fst (s_cb st)) (s_vis st) (s_tree st).

  Lemma logcb_eq c l h e :
    logcb cb (c, l) h e =
    ((fst (fst (cb c h e)), (h, e) :: l), snd (fst (cb c h e)), snd (cb c h e)).
  Proof. unfold logcb. cbn [fst snd]. destruct (cb c h e) as [[c1 h1] ok]. reflexivity. Qed.

  Lemma edge_loop_log_erase_ : forall fuel d c l h u pos,
    let r := edge_loop (logcb cb) fuel d (c, l) h u pos in
    edge_loop cb fuel d c h u pos = (fst (fst (fst r)), snd (fst r), snd r).
  Proof.
    induction fuel as [|f IH]; intros d c l h u pos; cbn [edge_loop].
    - reflexivity.
    - destruct (iter_edge h d u pos) as [e|]; [|reflexivity].
      rewrite logcb_eq.
      destruct (cb c h e) as [[c1 h1] ok]. cbn [fst snd]. apply IH.
  Qed.

  Lemma call_cb_erase st e :
    call_cb cb (erase_st st) e =
    (erase_st (fst (call_cb (logcb cb) st e)), snd (call_cb (logcb cb) st e)).
  Proof.
    unfold call_cb, logcb, erase_st. cbn [s_heap s_cb s_vis s_tree].
    destruct (cb (fst (s_cb st)) (s_heap st) e) as [[c1 h1] ok]. reflexivity.
  Qed.

  Lemma discover_erase st v eo : discover (erase_st st) v eo = erase_st (discover st v eo).
  Proof. reflexivity. Qed.

  Lemma push_tree_erase st e : push_tree (erase_st st) e = erase_st (push_tree st e).
  Proof. reflexivity. Qed.

  Lemma wl_scan_erase Q (qpush : Q -> nat -> Q) d target : forall fuel st q u pos,
    wl_scan keqb cb qpush d target fuel (erase_st st) q u pos =
    (let r := wl_scan keqb (logcb cb) qpush d target fuel st q u pos in
     (erase_st (fst (fst r)), snd (fst r), snd r)).
  Proof.
    induction fuel as [|f IH]; intros st q u pos; cbn [wl_scan].
    - reflexivity.
    - change (s_heap (erase_st st)) with (s_heap st).
      destruct (edge_at (s_heap st) d u pos) as [e|]; [|reflexivity].
      rewrite call_cb_erase.
      destruct (call_cb (logcb cb) st e) as [st1 ok]. cbn [fst snd].
      change (s_heap (erase_st st1)) with (s_heap st1).
      change (s_vis (erase_st st1)) with (s_vis st1).
      destruct (ok && negb (in_vis keqb (s_heap st1) (s_vis st1) (edst e))).
      + rewrite discover_erase.
        change (s_heap (erase_st (discover st1 (edst e) (Some e))))
          with (s_heap (discover st1 (edst e) (Some e))).
        destruct (is_target keqb (s_heap (discover st1 (edst e) (Some e))) target (edst e)).
        * reflexivity.
        * apply IH.
      + apply IH.
  Qed.

  Lemma wl_loop_erase Q (qpush : Q -> nat -> Q) qpop d target : forall fuel st q,
    wl_loop keqb cb qpush qpop d target fuel (erase_st st) q =
    (let r := wl_loop keqb (logcb cb) qpush qpop d target fuel st q in
     (erase_st (fst r), snd r)).
  Proof.
    induction fuel as [|f IH]; intros st q; cbn [wl_loop].
    - reflexivity.
    - destruct (qpop q) as [[u q']|]; [|reflexivity].
      rewrite wl_scan_erase.
      destruct (wl_scan keqb (logcb cb) qpush d target (S f) st q' u 0) as [[st1 q1] r].
      cbn [fst snd]. destruct r; try reflexivity. apply IH.
  Qed.

  Lemma descend_erase d target post : forall fuel st u pos,
    descend keqb cb d target post fuel (erase_st st) u pos =
    (let r := descend keqb (logcb cb) d target post fuel st u pos in
     (erase_st (fst r), snd r)).
  Proof.
    induction fuel as [|f IH]; intros st u pos; cbn [descend].
    - reflexivity.
    - change (s_heap (erase_st st)) with (s_heap st).
      destruct (edge_at (s_heap st) d u pos) as [e|]; [|reflexivity].
      rewrite call_cb_erase.
      destruct (call_cb (logcb cb) st e) as [st1 ok]. cbn [fst snd].
      change (s_heap (erase_st st1)) with (s_heap st1).
      change (s_vis (erase_st st1)) with (s_vis st1).
      destruct (ok && negb (in_vis keqb (s_heap st1) (s_vis st1) (edst e))).
      + rewrite discover_erase.
        set (st2 := discover st1 (edst e) (if post then None else Some e)).
        change (s_heap (erase_st st2)) with (s_heap st2).
        destruct (is_target keqb (s_heap st2) target (edst e)).
        * reflexivity.
        * rewrite IH.
          destruct (descend keqb (logcb cb) d target post f st2 (edst e) 0) as [st3 r].
          cbn [fst snd]. destruct r; try reflexivity.
          destruct post.
          -- rewrite push_tree_erase. apply IH.
          -- apply IH.
      + apply IH.
  Qed.

  Lemma init_st_erase h c l root b :
    init_st h c root b = erase_st (init_st h (c, l) root b).
  Proof. reflexivity. Qed.

  Lemma run_search_erase vleb k d fuel h c l root target cyc :
    run_search keqb cb vleb k d fuel h c root target cyc =
    (let r := run_search keqb (logcb cb) vleb k d fuel h (c, l) root target cyc in
     (erase_st (fst r), snd r)).
  Proof.
    unfold run_search. rewrite (init_st_erase h c l root (negb cyc)).
    destruct k; first [apply wl_loop_erase | apply descend_erase].
  Qed.

  Lemma order_edges_erase d post fuel h c l root :
    order_edges keqb cb d post fuel h c root =
    (let r := order_edges keqb (logcb cb) d post fuel h (c, l) root in
     (erase_st (fst r), snd r)).
  Proof.
    unfold order_edges. rewrite (init_st_erase h c l root true). rewrite descend_erase.
    destruct (descend keqb (logcb cb) d None post fuel (init_st h (c, l) root true) root 0)
      as [st r]. cbn [fst snd]. destruct r; reflexivity.
  Qed.
End Erase.

(* ------------------------------------------------------------------ *)
(* generic preservation of a (heap, callback state) predicate          *)
(* ------------------------------------------------------------------ *)
Section Pres.
  Variables K V E : Type.
  Variable keqb : K -> K -> bool.
  Notation heap := (heap K V E).
  Notation edge := (edge E).
  Variable CB : Type.
  Variable cb : CB -> heap -> edge -> CB * heap * bool.
  Variable d : dir.
  Variable P : heap -> CB -> Prop.
  Hypothesis Hcb : forall h c u pos e, P h c -> edge_at h d u pos = Some e ->
    P (snd (fst (cb c h e))) (fst (fst (cb c h e))).

  Definition PS (st : sst K V E CB) : Prop := P (s_heap st) (s_cb st).

  Lemma call_cb_pres st u pos e : PS st -> edge_at (s_heap st) d u pos = Some e ->
    PS (fst (call_cb cb st e)).
  Proof.
    unfold PS, call_cb. intros HP He. pose proof (@Hcb _ _ _ _ _ HP He) as H.
    destruct (cb (s_cb st) (s_heap st) e) as [[c1 h1] ok]. exact H.
  Qed.

  Lemma wl_scan_pres Q (qpush : Q -> nat -> Q) target : forall fuel st q u pos,
    PS st -> PS (fst (fst (wl_scan keqb cb qpush d target fuel st q u pos))).
  Proof.
    induction fuel as [|f IH]; intros st q u pos HP; cbn [wl_scan].
    - exact HP.
    - destruct (edge_at (s_heap st) d u pos) as [e|] eqn:He; [|exact HP].
      pose proof (@call_cb_pres _ _ _ _ HP He) as HP1.
      destruct (call_cb cb st e) as [st1 ok]. cbn [fst] in HP1.
      destruct (ok && negb (in_vis keqb (s_heap st1) (s_vis st1) (edst e))).
      + destruct (is_target keqb (s_heap (discover st1 (edst e) (Some e))) target (edst e)).
        * exact HP1.
        * apply IH. exact HP1.
      + apply IH. exact HP1.
  Qed.

  Lemma wl_loop_pres Q (qpush : Q -> nat -> Q) qpop target : forall fuel st q,
    PS st -> PS (fst (wl_loop keqb cb qpush qpop d target fuel st q)).
  Proof.
    induction fuel as [|f IH]; intros st q HP; cbn [wl_loop].
    - exact HP.
    - destruct (qpop q) as [[u q']|]; [|exact HP].
      pose proof (wl_scan_pres qpush target (S f) q' u 0 HP) as HP1.
      destruct (wl_scan keqb cb qpush d target (S f) st q' u 0) as [[st1 q1] r].
      cbn [fst] in HP1. destruct r; try exact HP1. apply IH. exact HP1.
  Qed.

  Lemma descend_pres target post : forall fuel st u pos,
    PS st -> PS (fst (descend keqb cb d target post fuel st u pos)).
  Proof.
    induction fuel as [|f IH]; intros st u pos HP; cbn [descend].
    - exact HP.
    - destruct (edge_at (s_heap st) d u pos) as [e|] eqn:He; [|exact HP].
      pose proof (@call_cb_pres _ _ _ _ HP He) as HP1.
      destruct (call_cb cb st e) as [st1 ok]. cbn [fst] in HP1.
      destruct (ok && negb (in_vis keqb (s_heap st1) (s_vis st1) (edst e))).
      + set (st2 := discover st1 (edst e) (if post then None else Some e)).
        assert (HP2 : PS st2) by exact HP1.
        destruct (is_target keqb (s_heap st2) target (edst e)).
        * exact HP2.
        * pose proof (IH st2 (edst e) 0 HP2) as HP3.
          destruct (descend keqb cb d target post f st2 (edst e) 0) as [st3 r].
          cbn [fst] in HP3. destruct r; try exact HP3.
          apply IH. destruct post; exact HP3.
      + apply IH. exact HP1.
  Qed.

  Lemma run_search_pres vleb k fuel h c root target cyc :
    P h c -> PS (fst (run_search keqb cb vleb k d fuel h c root target cyc)).
  Proof.
    intros HP. unfold run_search.
    destruct k; first [apply wl_loop_pres | apply descend_pres]; exact HP.
  Qed.

  Lemma order_edges_pres post fuel h c root :
    P h c -> PS (fst (order_edges keqb cb d post fuel h c root)).
  Proof.
    intros HP. unfold order_edges.
    pose proof (@descend_pres None post fuel (init_st h c root true) root 0 HP) as H.
    destruct (descend keqb cb d None post fuel (init_st h c root true) root 0) as [st r].
    cbn [fst] in H. destruct r; exact H.
  Qed.
End Pres.

(* the same for the plain edge loop *)
Section PresLoop.
  Variables K V E : Type.
  Notation heap := (heap K V E).
  Notation edge := (edge E).
  Variable CB : Type.
  Variable cb : CB -> heap -> edge -> CB * heap * bool.
  Variable d : dir.
  Variable u : nat.
  Variable P : heap -> CB -> Prop.
  Hypothesis Hcb : forall h c pos e, P h c -> iter_edge h d u pos = Some e ->
    P (snd (fst (cb c h e))) (fst (fst (cb c h e))).

  Lemma edge_loop_pres : forall fuel c h pos, P h c ->
    P (snd (fst (edge_loop cb fuel d c h u pos))) (fst (fst (edge_loop cb fuel d c h u pos))).
  Proof.
    induction fuel as [|f IH]; intros c h pos HP; cbn [edge_loop].
    - exact HP.
    - destruct (iter_edge h d u pos) as [e|] eqn:He; [|exact HP].
      pose proof (@Hcb _ _ _ _ HP He) as H1.
      destruct (cb c h e) as [[c1 h1] ok]. cbn [fst snd] in H1. apply IH. exact H1.
  Qed.
End PresLoop.

(* ------------------------------------------------------------------ *)
(* 2. every yielded edge exists when it is yielded                     *)
(* ------------------------------------------------------------------ *)
Section Yields.
  Variables K V E : Type.
  Variable keqb : K -> K -> bool.
  Notation heap := (heap K V E).
  Notation edge := (edge E).
  Variable CB : Type.
  Variable cb : CB -> heap -> edge -> CB * heap * bool.
  Notation LCB := (CB * list (heap * edge))%type.

  Definition iter_ok (d : dir) (u : nat) (hh : heap) (e : edge) : Prop :=
    is_iter_edge hh d e /\ (match d with DIn => edst e = u | _ => esrc e = u end).

  Lemma edge_loop_yields_gen d u (l0 : list (heap * edge)) : forall fuel (cl : LCB) h pos,
    (forall hh e, In (hh, e) (snd cl) -> In (hh, e) l0 \/ iter_ok d u hh e) ->
    forall hh e, In (hh, e) (snd (fst (fst (edge_loop (logcb cb) fuel d cl h u pos)))) ->
      In (hh, e) l0 \/ iter_ok d u hh e.
  Proof.
    intros fuel cl h pos H0.
    apply (@edge_loop_pres K V E LCB (logcb cb) d u
             (fun _ cl => forall hh e, In (hh, e) (snd cl) -> In (hh, e) l0 \/ iter_ok d u hh e));
      [|exact H0].
    clear. intros h [c l] pos e HP He hh e' Hin.
    rewrite logcb_eq in Hin. cbn [fst snd] in Hin. destruct Hin as [Heq|Hin].
    - injection Heq as <- <-. right.
      destruct (iter_edge_some _ _ _ _ He) as (H1 & H2 & _). split; assumption.
    - apply HP. exact Hin.
  Qed.

  Definition log_ok (d : dir) (h : heap) (cl : LCB) : Prop :=
    forall hh e, In (hh, e) (snd cl) -> is_trav_edge hh d e.

  Lemma logcb_log_ok d : forall h (c : LCB) u pos e, log_ok d h c -> edge_at h d u pos = Some e ->
    log_ok d (snd (fst (logcb cb c h e))) (fst (fst (logcb cb c h e))).
  Proof.
    intros h [c l] u pos e HP He hh e' Hin.
    rewrite logcb_eq in Hin. cbn [fst snd] in Hin. destruct Hin as [Heq|Hin].
    - injection Heq as <- <-. eapply edge_at_trav. exact He.
    - apply (HP hh e'). exact Hin.
  Qed.
End Yields.

(* ------------------------------------------------------------------ *)
(* 3. no panic: Found is only reported with a non-empty tree            *)
(* ------------------------------------------------------------------ *)
Section NoPanic.
  Variables K V E : Type.
  Variable keqb : K -> K -> bool.
  Notation heap := (heap K V E).
  Notation edge := (edge E).
  Variable CB : Type.
  Variable cb : CB -> heap -> edge -> CB * heap * bool.

  Definition found_tree (st : sst K V E CB) (r : status) : Prop :=
    match r with Found _ => s_tree st <> [] | _ => True end.

  Lemma discover_tree_nonempty (st : sst K V E CB) v e : s_tree (discover st v (Some e)) <> [].
  Proof. cbn [discover s_tree]. intros H. symmetry in H. exact (app_cons_not_nil _ _ _ H). Qed.

  Lemma wl_scan_found Q (qpush : Q -> nat -> Q) d target : forall fuel st q u pos,
    found_tree (fst (fst (wl_scan keqb cb qpush d target fuel st q u pos)))
               (snd (wl_scan keqb cb qpush d target fuel st q u pos)).
  Proof.
    induction fuel as [|f IH]; intros st q u pos; cbn [wl_scan].
    - exact I.
    - destruct (edge_at (s_heap st) d u pos) as [e|]; [|exact I].
      destruct (call_cb cb st e) as [st1 ok].
      destruct (ok && negb (in_vis keqb (s_heap st1) (s_vis st1) (edst e))).
      + destruct (is_target keqb (s_heap (discover st1 (edst e) (Some e))) target (edst e)).
        * cbn [fst snd found_tree]. apply discover_tree_nonempty.
        * apply IH.
      + apply IH.
  Qed.

  Lemma wl_loop_found Q (qpush : Q -> nat -> Q) qpop d target : forall fuel st q,
    found_tree (fst (wl_loop keqb cb qpush qpop d target fuel st q))
               (snd (wl_loop keqb cb qpush qpop d target fuel st q)).
  Proof.
    induction fuel as [|f IH]; intros st q; cbn [wl_loop].
    - exact I.
    - destruct (qpop q) as [[u q']|]; [|exact I].
      pose proof (wl_scan_found qpush d target (S f) st q' u 0) as H.
      destruct (wl_scan keqb cb qpush d target (S f) st q' u 0) as [[st1 q1] r].
      cbn [fst snd] in H. destruct r; cbn [fst snd]; try exact H. apply IH.
  Qed.

  Lemma descend_found d target : forall fuel st u pos,
    found_tree (fst (descend keqb cb d target false fuel st u pos))
               (snd (descend keqb cb d target false fuel st u pos)).
  Proof.
    induction fuel as [|f IH]; intros st u pos; cbn [descend].
    - exact I.
    - destruct (edge_at (s_heap st) d u pos) as [e|]; [|exact I].
      destruct (call_cb cb st e) as [st1 ok].
      destruct (ok && negb (in_vis keqb (s_heap st1) (s_vis st1) (edst e))).
      + destruct (is_target keqb (s_heap (discover st1 (edst e) (Some e))) target (edst e)).
        * cbn [fst snd found_tree]. apply discover_tree_nonempty.
        * pose proof (IH (discover st1 (edst e) (Some e)) (edst e) 0) as H.
          destruct (descend keqb cb d target false f (discover st1 (edst e) (Some e)) (edst e) 0)
            as [st3 r].
          cbn [fst snd] in H. destruct r; cbn [fst snd]; try exact H. apply IH.
      + apply IH.
  Qed.

  Lemma run_search_found vleb k d fuel h c root target cyc :
    found_tree (fst (run_search keqb cb vleb k d fuel h c root target cyc))
               (snd (run_search keqb cb vleb k d fuel h c root target cyc)).
  Proof.
    unfold run_search. destruct k; first [apply wl_loop_found | apply descend_found].
  Qed.
End NoPanic.

(* ------------------------------------------------------------------ *)
(* 4. the scripted callback keeps the heap invariant                   *)
(* ------------------------------------------------------------------ *)
Section MkCb.
  Variables K V E : Type.
  Variable keqb : K -> K -> bool.
  Hypothesis Hk : KeqbSpec keqb.
  Notation heap := (heap K V E).
  Notation edge := (edge E).

  Definition StepOK (step : heap -> op K V E -> heap * outcome E) : Prop :=
    forall h o, Inv h ->
      (forall k x, o = ONew k x -> forall w, keyof h w <> Some k) ->
      Inv (fst (step h o)) /\ snd (step h o) <> Panic /\
      (forall w k, keyof (fst (step h o)) w = Some k ->
                   keyof h w = Some k \/ exists x, o = ONew k x).

  Lemma step_u_ok : StepOK (step_u keqb).
  Proof. intros h o HInv Hf. exact (@NodeU.step_u_full K V E keqb Hk h o HInv Hf). Qed.

  Lemma step_d_ok : StepOK (step_d keqb).
  Proof.
    intros h o HInv Hf. destruct (NodeD.step_d_full Hk HInv Hf) as (H1 & H2 & H3).
    split; [exact H1|]. split; [exact H2|].
    intros w k Hw. unfold keyof in Hw. rewrite H3 in Hw.
    destruct o as [k0 x0|? ? ?|? ? ?|? ?|?]; try (left; exact Hw).
    change (keyof (alloc h k0 x0) w = Some k) in Hw.
    rewrite NodeD.keyof_alloc in Hw.
    destruct (Nat.ltb w (size h)); [left; exact Hw|].
    destruct (Nat.eqb w (size h)); [|discriminate].
    injection Hw as <-. right. now exists x0.
  Qed.

  Section Generic.
    Variable step : heap -> op K V E -> heap * outcome E.
    Hypothesis Hstep : StepOK step.

    Lemma run_ops_inv : forall ops h log, Inv h -> NoDup (new_keys ops) ->
      (forall k, In k (new_keys ops) -> forall w, keyof h w <> Some k) ->
      Inv (fst (run_ops step h ops log)) /\
      (forall o, In o (snd (run_ops step h ops log)) -> In o log \/ o <> Panic).
    Proof.
      induction ops as [|o r IH]; intros h log HInv Hnd Hfresh; cbn [run_ops].
      - cbn [fst snd]. split; [exact HInv|]. intros o Ho. now left.
      - assert (Hfo : forall k x, o = ONew k x -> forall w, keyof h w <> Some k).
        { intros k x -> w. apply Hfresh. cbn [new_keys]. now left. }
        destruct (Hstep HInv Hfo) as (HI1 & Hnp & Hkeys).
        destruct (step h o) as [h1 x1]. cbn [fst snd] in HI1, Hnp, Hkeys.
        assert (Hnd' : NoDup (new_keys r)).
        { destruct o; cbn [new_keys] in Hnd; try exact Hnd. now inversion Hnd. }
        assert (Hfresh' : forall k, In k (new_keys r) -> forall w, keyof h1 w <> Some k).
        { intros k Hin w Hw. destruct (Hkeys w k Hw) as [Hold|[x ->]].
          - refine (Hfresh k _ w Hold). destruct o; cbn [new_keys]; auto. now right.
          - cbn [new_keys] in Hnd. inversion Hnd; subst. contradiction. }
        destruct (IH h1 (x1 :: log) HI1 Hnd' Hfresh') as [HI2 Hlog].
        split; [exact HI2|]. intros o' Ho'. destruct (Hlog o' Ho') as [[<-|Hin]|Hne].
        + now right.
        + now left.
        + now right.
    Qed.

    Lemma mk_cb_inv_new is_filter pred script c h e :
      Inv h ->
      NoDup (new_keys (script_at script (c_count c))) ->
      (forall k, In k (new_keys (script_at script (c_count c))) -> forall w, keyof h w <> Some k) ->
      Inv (snd (fst (mk_cb step is_filter pred script c h e))) /\
      (forall o, In o (c_log (fst (fst (mk_cb step is_filter pred script c h e)))) ->
                 In o (c_log c) \/ o <> Panic).
    Proof.
      intros HInv Hnd Hfresh. unfold mk_cb.
      pose proof (run_ops_inv (script_at script (c_count c)) (c_log c) HInv Hnd Hfresh) as H.
      destruct (run_ops step h (script_at script (c_count c)) (c_log c)) as [h1 log1].
      cbn [fst snd c_log] in *. exact H.
    Qed.

    Lemma script_at_in (script : list (nat * list (op K V E))) k o :
      In o (script_at script k) -> exists i ops, In (i, ops) script /\ In o ops.
    Proof.
      induction script as [|[i ops] r IH]; cbn [script_at]; intros Hin; [contradiction|].
      destruct (Nat.eqb i k).
      - apply in_app_or in Hin. destruct Hin as [Hin|Hin].
        + exists i, ops. split; [now left|exact Hin].
        + destruct (IH Hin) as (i' & ops' & H1 & H2). exists i', ops'. split; [now right|exact H2].
      - destruct (IH Hin) as (i' & ops' & H1 & H2). exists i', ops'. split; [now right|exact H2].
    Qed.

    Lemma no_new_keys (ops : list (op K V E)) :
      (forall k x, ~ In (ONew k x) ops) -> new_keys ops = [].
    Proof.
      induction ops as [|o r IH]; intros H; [reflexivity|].
      destruct o as [k x|? ? ?|? ? ?|? ?|?]; cbn [new_keys];
        try (apply IH; intros k' x' Hin; apply (H k' x'); now right).
      exfalso. apply (H k x). now left.
    Qed.

    Lemma mk_cb_inv_nonew is_filter pred script c h e :
      Inv h ->
      (forall k i ops x, In (i, ops) script -> In (ONew k x) ops -> False) ->
      Inv (snd (fst (mk_cb step is_filter pred script c h e))) /\
      (forall o, In o (c_log (fst (fst (mk_cb step is_filter pred script c h e)))) ->
                 In o (c_log c) \/ o <> Panic).
    Proof.
      intros HInv Hno.
      assert (Hnk : new_keys (script_at script (c_count c)) = []).
      { apply no_new_keys. intros k x Hin.
        destruct (script_at_in _ _ _ Hin) as (i & ops & H1 & H2). exact (Hno k i ops x H1 H2). }
      apply mk_cb_inv_new; [exact HInv| |]; rewrite Hnk.
      - constructor.
      - intros k [].
    Qed.
  End Generic.
End MkCb.

(* ------------------------------------------------------------------ *)
(* 5. termination of an edge loop                                      *)
(* ------------------------------------------------------------------ *)
Section LoopTerm.
  Variables K V E : Type.
  Notation heap := (heap K V E).
  Notation edge := (edge E).
  Variable CB : Type.
  Variable cb : CB -> heap -> edge -> CB * heap * bool.

  Lemma edge_loop_terminates_ d u :
    (forall c h e, length (adj_of (snd (fst (cb c h e))) d u) <= length (adj_of h d u)) ->
    forall fuel c h pos, length (adj_of h d u) - pos < fuel ->
      snd (edge_loop cb fuel d c h u pos) = true.
  Proof.
    intros Hle. induction fuel as [|f IH]; intros c h pos Hf; [lia|]. cbn [edge_loop].
    destruct (iter_edge h d u pos) as [e|] eqn:He; [|reflexivity].
    destruct (iter_edge_some _ _ _ _ He) as (_ & _ & Hpos).
    pose proof (Hle c h e) as Hl.
    destruct (cb c h e) as [[c1 h1] ok]. cbn [fst snd] in Hl. apply IH. lia.
  Qed.
End LoopTerm.

(* ------------------------------------------------------------------ *)
(* 6. termination of traversals when the closure adds nothing          *)
(* ------------------------------------------------------------------ *)
Section QueueLen.
  Variable le : nat -> nat -> bool.

  Lemma setn_length : forall l i x, length (setn l i x) = length l.
  Proof.
    induction l as [|y r IH]; intros i x; cbn [setn]; [reflexivity|].
    destruct i; cbn [length]; [reflexivity|]. now rewrite IH.
  Qed.

  Lemma sift_up_length : forall fuel data start pos x,
    length (sift_up le fuel data start pos x) = length data.
  Proof.
    induction fuel as [|f IH]; intros data start pos x; cbn [sift_up].
    - apply setn_length.
    - destruct (Nat.ltb start pos); [|apply setn_length].
      destruct (le x (getn data (Nat.div2 (pos - 1)))); [apply setn_length|].
      rewrite IH. apply setn_length.
  Qed.

  Lemma sift_down_hole_length : forall fuel data hole,
    length (fst (sift_down_hole le fuel data hole)) = length data.
  Proof.
    induction fuel as [|f IH]; intros data hole; cbn [sift_down_hole]; [reflexivity|].
    destruct (Nat.leb (2 * hole + 1) (length data - 2)).
    - rewrite IH. apply setn_length.
    - destruct (Nat.eqb (2 * hole + 1) (length data - 1)); cbn [fst]; [apply setn_length|reflexivity].
  Qed.

  Lemma heap_push_length data x : length (heap_push le data x) = S (length data).
  Proof. unfold heap_push. rewrite sift_up_length, app_length. cbn [length]. lia. Qed.

  Lemma heap_pop_length data x q' : heap_pop le data = Some (x, q') -> length data = S (length q').
  Proof.
    unfold heap_pop. destruct (rev data) as [|last rrest] eqn:Hr; [discriminate|].
    assert (Hl : length data = S (length rrest)).
    { rewrite <- (rev_length data), Hr. reflexivity. }
    destruct (rev rrest) as [|top rest'] eqn:Hr2.
    - intros Heq. injection Heq as _ <-. rewrite Hl, <- (rev_length rrest), Hr2. reflexivity.
    - pose proof (sift_down_hole_length (S (length (setn (top :: rest') 0 last)))
                    (setn (top :: rest') 0 last) 0) as Hd.
      destruct (sift_down_hole le (S (length (setn (top :: rest') 0 last)))
                  (setn (top :: rest') 0 last) 0) as [data2 pos].
      cbn [fst] in Hd.
      pose proof (sift_up_length (S (length data2)) data2 0 pos last) as Hsu.
      revert Hsu. generalize (sift_up le (S (length data2)) data2 0 pos last). intros l Hsu Heq.
      injection Heq as _ <-.
      rewrite Hsu, Hd, setn_length, <- Hr2, rev_length. exact Hl.
  Qed.
End QueueLen.

Section SumLemmas.
  Lemma in_iota v : forall n a, In v (iota a n) <-> a <= v < a + n.
  Proof.
    induction n as [|n IH]; intros a; cbn [iota In].
    - split; [intros []|lia].
    - rewrite IH. lia.
  Qed.

  Lemma iota_length : forall n a, length (iota a n) = n.
  Proof. induction n as [|n IH]; intros a; cbn [iota length]; [reflexivity|]. now rewrite IH. Qed.

  Lemma sum_in (f : nat -> nat) v : forall l, In v l ->
    f v <= fold_right (fun u acc => f u + acc) 0 l.
  Proof.
    induction l as [|w r IH]; intros Hin; [contradiction|]. cbn [fold_right].
    destruct Hin as [->|Hin]; [lia|]. specialize (IH Hin). lia.
  Qed.

  Lemma sum_le (f g : nat -> nat) : (forall w, f w <= g w) -> forall l,
    fold_right (fun u acc => f u + acc) 0 l <= fold_right (fun u acc => g u + acc) 0 l.
  Proof.
    intros H. induction l as [|w r IH]; cbn [fold_right]; [lia|]. specialize (H w). lia.
  Qed.

  Lemma sum_S (f : nat -> nat) : forall l,
    fold_right (fun u acc => S (f u) + acc) 0 l = length l + fold_right (fun u acc => f u + acc) 0 l.
  Proof. induction l as [|w r IH]; cbn [fold_right length]; [reflexivity|]. rewrite IH. lia. Qed.

  Lemma sum_const1 : forall l : list nat, fold_right (fun u acc => 1 + acc) 0 l = length l.
  Proof. induction l as [|w r IH]; cbn [fold_right length]; [reflexivity|]. now rewrite IH. Qed.
End SumLemmas.

Section Term.
  Variables K V E : Type.
  Variable keqb : K -> K -> bool.
  Hypothesis Hk : KeqbSpec keqb.
  Notation heap := (heap K V E).
  Notation edge := (edge E).
  Variable CB : Type.
  Variable cb : CB -> heap -> edge -> CB * heap * bool.
  Hypothesis Hcb : forall c h e w,
    nodes (snd (fst (cb c h e))) = nodes h /\
    length (outs (snd (fst (cb c h e))) w) <= length (outs h w) /\
    length (ins (snd (fst (cb c h e))) w) <= length (ins h w).
  Variable d : dir.
  Variable h0 : heap.
  (* bnd: strict bound on the length of each walked list; wt: the weight of an unvisited node *)
  Variables bnd wt : nat -> nat.
  Hypothesis Hbw : forall w, bnd w <= wt w.
  Hypothesis Hw1 : forall w, 1 <= wt w.

  Definition Good (st : sst K V E CB) : Prop :=
    nodes (s_heap st) = nodes h0 /\ forall w, length (adj_of (s_heap st) d w) < bnd w.

  Definition unvl (l : list nat) (vis : list K) : nat :=
    fold_right (fun w acc => (if in_vis keqb h0 vis w then 0 else wt w) + acc) 0 l.
  Definition unv (vis : list K) : nat := unvl (iota 0 (size h0)) vis.

  Lemma keyof_nodes_eq (h : heap) v : nodes h = nodes h0 -> keyof h v = keyof h0 v.
  Proof. intros H. unfold keyof. now rewrite H. Qed.

  Lemma in_vis_nodes_eq (h : heap) vis v : nodes h = nodes h0 ->
    in_vis keqb h vis v = in_vis keqb h0 vis v.
  Proof. intros H. unfold in_vis. now rewrite (@keyof_nodes_eq _ v H). Qed.

  Lemma keyof_some_lt v k : keyof h0 v = Some k -> v < size h0.
  Proof.
    unfold keyof, size. intros H. apply nth_error_Some. intros Hn. rewrite Hn in H. discriminate.
  Qed.

  Lemma in_vis_cons_mono k vis w : in_vis keqb h0 vis w = true -> in_vis keqb h0 (k :: vis) w = true.
  Proof.
    unfold in_vis. destruct (keyof h0 w) as [kw|]; [|reflexivity]. cbn [memb].
    intros H. rewrite H. now destruct (keqb k kw).
  Qed.

  Lemma in_vis_cons_self k vis v : keyof h0 v = Some k -> in_vis keqb h0 (k :: vis) v = true.
  Proof.
    unfold in_vis. intros ->. cbn [memb].
    assert (Hr : keqb k k = true) by (apply Hk; reflexivity). now rewrite Hr.
  Qed.

  Lemma unvl_mono k vis : forall l, unvl l (k :: vis) <= unvl l vis.
  Proof.
    induction l as [|w r IH]; cbn [unvl fold_right]; [lia|]. fold (unvl r (k :: vis)). fold (unvl r vis).
    destruct (in_vis keqb h0 vis w) eqn:Hv.
    - rewrite (in_vis_cons_mono k _ _ Hv). lia.
    - destruct (in_vis keqb h0 (k :: vis) w); lia.
  Qed.

  Lemma unvl_mark k vis v : keyof h0 v = Some k -> in_vis keqb h0 vis v = false ->
    forall l, In v l -> unvl l (k :: vis) + wt v <= unvl l vis.
  Proof.
    intros Hkey Hv. induction l as [|w r IH]; intros Hin; [contradiction|].
    cbn [unvl fold_right]. fold (unvl r (k :: vis)). fold (unvl r vis).
    destruct Hin as [->|Hin].
    - rewrite Hv, (in_vis_cons_self vis _ Hkey). pose proof (unvl_mono k vis r). lia.
    - specialize (IH Hin).
      destruct (in_vis keqb h0 vis w) eqn:Hw.
      + rewrite (in_vis_cons_mono k _ _ Hw). lia.
      + destruct (in_vis keqb h0 (k :: vis) w); lia.
  Qed.

  Lemma unv_mark k vis v : keyof h0 v = Some k -> in_vis keqb h0 vis v = false ->
    unv (k :: vis) + wt v <= unv vis.
  Proof.
    intros Hkey Hv. apply unvl_mark; try assumption.
    apply in_iota. pose proof (keyof_some_lt _ Hkey). lia.
  Qed.

  Lemma unv_le_sum vis : unv vis <= fold_right (fun w acc => wt w + acc) 0 (iota 0 (size h0)).
  Proof.
    unfold unv, unvl. apply sum_le. intros w. destruct (in_vis keqb h0 vis w); lia.
  Qed.

  Lemma adj_len_mono (h h' : heap) w :
    length (outs h' w) <= length (outs h w) -> length (ins h' w) <= length (ins h w) ->
    length (adj_of h' d w) <= length (adj_of h d w).
  Proof. destruct d; cbn [adj_of]; rewrite ?app_length; lia. Qed.

  Lemma call_cb_good st e : Good st ->
    Good (fst (call_cb cb st e)) /\ s_vis (fst (call_cb cb st e)) = s_vis st.
  Proof.
    intros [Hn Hl]. unfold call_cb.
    pose proof (Hcb (s_cb st) (s_heap st) e) as H.
    destruct (cb (s_cb st) (s_heap st) e) as [[c1 h1] ok]. cbn [fst snd] in *.
    split; [|reflexivity]. split; cbn [s_heap].
    - destruct (H 0) as [H1 _]. now rewrite H1.
    - intros w. destruct (H w) as (_ & H2 & H3).
      pose proof (adj_len_mono (s_heap st) h1 w H2 H3). specialize (Hl w). lia.
  Qed.

  (* the discovery step *)
  Lemma discover_good st v eo : Good st -> in_vis keqb (s_heap st) (s_vis st) v = false ->
    Good (discover st v eo) /\ unv (s_vis (discover st v eo)) + wt v <= unv (s_vis st).
  Proof.
    intros [Hn Hl] Hv. split; [split; assumption|].
    rewrite (@in_vis_nodes_eq _ _ _ Hn) in Hv. cbn [discover s_vis]. unfold mark.
    rewrite (@keyof_nodes_eq _ v Hn).
    destruct (keyof h0 v) as [k|] eqn:Hkey.
    - now apply unv_mark.
    - unfold in_vis in Hv. rewrite Hkey in Hv. discriminate.
  Qed.

  Lemma descend_term target post : forall fuel st u pos,
    Good st -> S (bnd u - pos + unv (s_vis st)) <= fuel ->
    snd (descend keqb cb d target post fuel st u pos) <> OutOfFuel /\
    Good (fst (descend keqb cb d target post fuel st u pos)) /\
    unv (s_vis (fst (descend keqb cb d target post fuel st u pos))) <= unv (s_vis st).
  Proof.
    induction fuel as [|f IH]; intros st u pos HG Hf; [lia|]. cbn [descend].
    destruct (edge_at (s_heap st) d u pos) as [e|] eqn:He.
    2:{ cbn [fst snd]. split; [discriminate|]. split; [exact HG|lia]. }
    destruct (edge_at_some _ _ _ _ He) as (_ & _ & Hpos).
    pose proof (proj2 HG u) as Hbu.
    destruct (@call_cb_good st e HG) as [HG1 Hv1].
    destruct (call_cb cb st e) as [st1 ok]. cbn [fst] in HG1, Hv1.
    destruct (ok && negb (in_vis keqb (s_heap st1) (s_vis st1) (edst e))) eqn:Hb.
    - apply andb_true_iff in Hb. destruct Hb as [_ Hb]. apply negb_true_iff in Hb.
      set (st2 := discover st1 (edst e) (if post then None else Some e)).
      destruct (@discover_good st1 (edst e) (if post then None else Some e) HG1 Hb) as [HG2 Hu2].
      fold st2 in HG2, Hu2. rewrite Hv1 in Hu2.
      pose proof (Hbw (edst e)) as Hbe.
      destruct (is_target keqb (s_heap st2) target (edst e)).
      + cbn [fst snd]. split; [discriminate|]. split; [exact HG2|lia].
      + destruct (IH st2 (edst e) 0 HG2) as (Hr3 & HG3 & Hu3); [lia|].
        destruct (descend keqb cb d target post f st2 (edst e) 0) as [st3 r].
        cbn [fst snd] in Hr3, HG3, Hu3.
        destruct r; cbn [fst snd].
        * split; [discriminate|]. split; [exact HG3|lia].
        * assert (HG3' : Good (if post then push_tree st3 e else st3)) by (destruct post; exact HG3).
          assert (Hv3' : s_vis (if post then push_tree st3 e else st3) = s_vis st3)
            by (destruct post; reflexivity).
          destruct (IH _ u (S pos) HG3') as (Hr4 & HG4 & Hu4); [rewrite Hv3'; lia|].
          rewrite Hv3' in Hu4. split; [exact Hr4|]. split; [exact HG4|lia].
        * congruence.
    - destruct (IH st1 u (S pos) HG1) as (Hr4 & HG4 & Hu4); [rewrite Hv1; lia|].
      rewrite Hv1 in Hu4. split; [exact Hr4|]. split; [exact HG4|exact Hu4].
  Qed.

  Section WL.
    Variable Q : Type.
    Variable qpush : Q -> nat -> Q.
    Variable qpop : Q -> option (nat * Q).
    Variable qlen : Q -> nat.
    Hypothesis Hpush : forall q x, qlen (qpush q x) = S (qlen q).
    Hypothesis Hpop : forall q x q', qpop q = Some (x, q') -> qlen q = S (qlen q').
    Variable target : option K.

    Lemma wl_scan_term : forall fuel st q u pos,
      Good st -> bnd u - pos < fuel ->
      snd (wl_scan keqb cb qpush d target fuel st q u pos) <> OutOfFuel /\
      Good (fst (fst (wl_scan keqb cb qpush d target fuel st q u pos))) /\
      qlen (snd (fst (wl_scan keqb cb qpush d target fuel st q u pos))) +
        unv (s_vis (fst (fst (wl_scan keqb cb qpush d target fuel st q u pos))))
        <= qlen q + unv (s_vis st).
    Proof.
      induction fuel as [|f IH]; intros st q u pos HG Hf; [lia|]. cbn [wl_scan].
      destruct (edge_at (s_heap st) d u pos) as [e|] eqn:He.
      2:{ cbn [fst snd]. split; [discriminate|]. split; [exact HG|lia]. }
      destruct (edge_at_some _ _ _ _ He) as (_ & _ & Hpos).
      pose proof (proj2 HG u) as Hbu.
      destruct (@call_cb_good st e HG) as [HG1 Hv1].
      destruct (call_cb cb st e) as [st1 ok]. cbn [fst] in HG1, Hv1.
      destruct (ok && negb (in_vis keqb (s_heap st1) (s_vis st1) (edst e))) eqn:Hb.
      - apply andb_true_iff in Hb. destruct Hb as [_ Hb]. apply negb_true_iff in Hb.
        set (st2 := discover st1 (edst e) (Some e)).
        destruct (@discover_good st1 (edst e) (Some e) HG1 Hb) as [HG2 Hu2].
        fold st2 in HG2, Hu2. rewrite Hv1 in Hu2.
        pose proof (Hw1 (edst e)) as Hwe.
        destruct (is_target keqb (s_heap st2) target (edst e)).
        + cbn [fst snd]. split; [discriminate|]. split; [exact HG2|lia].
        + destruct (IH st2 (qpush q (edst e)) u (S pos) HG2) as (Hr & HG' & Hu'); [lia|].
          rewrite Hpush in Hu'. split; [exact Hr|]. split; [exact HG'|lia].
      - destruct (IH st1 q u (S pos) HG1) as (Hr & HG' & Hu'); [lia|].
        rewrite Hv1 in Hu'. split; [exact Hr|]. split; [exact HG'|exact Hu'].
    Qed.

    Variable B : nat.
    Hypothesis HB : forall w, bnd w <= B.

    Lemma wl_loop_term : forall fuel st q,
      Good st -> qlen q + unv (s_vis st) + B < fuel ->
      snd (wl_loop keqb cb qpush qpop d target fuel st q) <> OutOfFuel.
    Proof.
      induction fuel as [|f IH]; intros st q HG Hf; [lia|]. cbn [wl_loop].
      destruct (qpop q) as [[u q']|] eqn:Hq; [|cbn [snd]; discriminate].
      pose proof (@Hpop _ _ _ Hq) as Hql. pose proof (HB u) as HBu.
      destruct (@wl_scan_term (S f) st q' u 0 HG) as (Hr & HG1 & Hu1); [lia|].
      destruct (wl_scan keqb cb qpush d target (S f) st q' u 0) as [[st1 q1] r].
      cbn [fst snd] in Hr, HG1, Hu1.
      destruct r; cbn [snd]; try discriminate; try congruence.
      apply IH; [exact HG1|lia].
    Qed.
  End WL.
End Term.

Section TermFinal.
  Variables K V E : Type.
  Variable keqb : K -> K -> bool.
  Hypothesis Hk : KeqbSpec keqb.
  Notation heap := (heap K V E).
  Notation edge := (edge E).
  Variable CB : Type.
  Variable cb : CB -> heap -> edge -> CB * heap * bool.
  Hypothesis Hcb : forall c h e w,
    nodes (snd (fst (cb c h e))) = nodes h /\
    length (outs (snd (fst (cb c h e))) w) <= length (outs h w) /\
    length (ins (snd (fst (cb c h e))) w) <= length (ins h w).

  Definition total (h : heap) : nat :=
    fold_right (fun u acc => length (outs h u) + length (ins h u) + acc) 0 (iota 0 (size h)).

  Lemma fuel_bound_ge h : 2 * S (S (size h) + total h) <= fuel_bound h.
  Proof.
    unfold fuel_bound. fold (total h). rewrite (Nat.mul_comm 2).
    apply Nat.mul_le_mono_l. lia.
  Qed.

  Lemma adj_len_le_oi (h : heap) d w :
    length (adj_of h d w) <= length (outs h w) + length (ins h w).
  Proof. destruct d; cbn [adj_of]; rewrite ?app_length; lia. Qed.

  Lemma adj_len_le_total (h : heap) d w : Wf h -> length (adj_of h d w) <= total h.
  Proof.
    intros (Hwf & _ & _). pose proof (adj_len_le_oi h d w) as H.
    destruct (Nat.lt_ge_cases w (size h)) as [Hlt|Hge].
    - assert (Hin : In w (iota 0 (size h))) by (apply in_iota; lia).
      pose proof (sum_in (fun u => length (outs h u) + length (ins h u)) w _ Hin) as Hs.
      unfold total. cbn beta in Hs. lia.
    - destruct (Hwf w Hge) as [Ho Hi]. rewrite Ho, Hi in H. cbn [length] in H. lia.
  Qed.

  Lemma sum_adj_le (h : heap) d :
    fold_right (fun w acc => S (length (adj_of h d w)) + acc) 0 (iota 0 (size h))
    <= size h + total h.
  Proof.
    rewrite sum_S, iota_length. apply Nat.add_le_mono_l. unfold total.
    apply (sum_le (fun w => length (adj_of h d w))
                  (fun w => length (outs h w) + length (ins h w))).
    intros w. apply adj_len_le_oi.
  Qed.

  Lemma descend_terminates d target post fuel h c root b : Wf h -> fuel_bound h <= fuel ->
    snd (descend keqb cb d target post fuel (init_st h c root b) root 0) <> OutOfFuel.
  Proof.
    intros Hwf Hfuel.
    set (w := fun v => S (length (adj_of h d v))).
    destruct (@descend_term K V E keqb Hk CB cb Hcb d h w w (fun v => le_n _) target post
                fuel (init_st h c root b) root 0) as (Hr & _ & _).
    - split; [reflexivity|]. intros v. unfold w. cbn [init_st s_heap]. lia.
    - pose proof (unv_le_sum keqb h w (s_vis (init_st h c root b))) as Hu.
      pose proof (sum_adj_le h d) as Hs.
      pose proof (adj_len_le_total d root Hwf) as Hroot.
      pose proof (fuel_bound_ge h) as Hfb. subst w. cbn beta in Hu |- *. lia.
    - exact Hr.
  Qed.

  Lemma wl_loop_terminates Q (qpush : Q -> nat -> Q) qpop (qlen : Q -> nat) d target fuel h c root b q :
    (forall q x, qlen (qpush q x) = S (qlen q)) ->
    (forall q x q', qpop q = Some (x, q') -> qlen q = S (qlen q')) ->
    qlen q = 1 ->
    Wf h -> fuel_bound h <= fuel ->
    snd (wl_loop keqb cb qpush qpop d target fuel (init_st h c root b) q) <> OutOfFuel.
  Proof.
    intros Hpush Hpop Hq Hwf Hfuel.
    apply (@wl_loop_term K V E keqb Hk CB cb Hcb d h (fun _ => S (total h)) (fun _ => 1)
             (fun _ => le_n _) Q qpush qpop qlen Hpush Hpop target (S (total h)) (fun _ => le_n _)).
    - split; [reflexivity|]. intros v. cbn [init_st s_heap].
      pose proof (adj_len_le_total d v Hwf). lia.
    - pose proof (unv_le_sum keqb h (fun _ => 1) (s_vis (init_st h c root b))) as Hu.
      rewrite sum_const1, iota_length in Hu.
      pose proof (fuel_bound_ge h) as Hfb. lia.
  Qed.
End TermFinal.

(* ================================================================== *)
(* FINAL THEOREMS                                                      *)
(* ================================================================== *)
Section Final.
  Variables K V E : Type.
  Variable keqb : K -> K -> bool.
  Notation heap := (heap K V E).
  Notation edge := (edge E).
  Variable CB : Type.
  Variable cb : CB -> heap -> edge -> CB * heap * bool.

  (* ---- 1. erasure ---- *)
  Theorem edge_loop_log_erase : forall fuel d c l h u pos,
    let r := edge_loop (logcb cb) fuel d (c, l) h u pos in
    edge_loop cb fuel d c h u pos = (fst (fst (fst r)), snd (fst r), snd r).
  Proof. exact (edge_loop_log_erase_ cb). Qed.

  Theorem run_search_log_erase : forall vleb k d fuel h c l root target cyc,
    let r := run_search keqb (logcb cb) vleb k d fuel h (c, l) root target cyc in
    let r0 := run_search keqb cb vleb k d fuel h c root target cyc in
    snd r0 = snd r /\
    s_heap (fst r0) = s_heap (fst r) /\
    s_vis (fst r0) = s_vis (fst r) /\
    s_tree (fst r0) = s_tree (fst r) /\
    s_cb (fst r0) = fst (s_cb (fst r)).
  Proof.
    intros vleb k d fuel h c l root target cyc r r0. subst r r0.
    rewrite (run_search_erase keqb cb vleb k d fuel h c l root target cyc).
    cbn [fst snd]. repeat split; reflexivity.
  Qed.

  Theorem order_log_erase : forall d post fuel h c l root,
    let r := order_edges keqb (logcb cb) d post fuel h (c, l) root in
    let r0 := order_edges keqb cb d post fuel h c root in
    snd r0 = snd r /\
    s_heap (fst r0) = s_heap (fst r) /\
    s_vis (fst r0) = s_vis (fst r) /\
    s_tree (fst r0) = s_tree (fst r) /\
    s_cb (fst r0) = fst (s_cb (fst r)).
  Proof.
    intros d post fuel h c l root r r0. subst r r0.
    rewrite (order_edges_erase keqb cb d post fuel h c l root).
    cbn [fst snd]. repeat split; reflexivity.
  Qed.

  (* ---- 2. yielded edges exist at the moment they are yielded ---- *)
  Theorem adj_at_spec : forall (h : heap) u pos,
    adj_at h u pos = nth_error (outs h u ++ ins h u) pos.
  Proof. exact (@adj_at_nth K V E). Qed.

  Theorem edge_loop_yields_exist : forall fuel d c h u pos c' l' h' ok,
    edge_loop (logcb cb) fuel d (c, []) h u pos = ((c', l'), h', ok) ->
    forall hh e, In (hh, e) l' ->
      is_iter_edge hh d e /\ (match d with DIn => edst e = u | _ => esrc e = u end).
  Proof.
    intros fuel d c h u pos c' l' h' ok Hrun hh e Hin.
    destruct (@edge_loop_yields_gen K V E CB cb d u [] fuel (c, []) h pos) with (hh := hh) (e := e)
      as [[]|H].
    - intros hh0 e0 [].
    - rewrite Hrun. exact Hin.
    - exact H.
  Qed.

  Theorem traversal_yields_exist : forall vleb k d fuel h c root target cyc hh e,
    In (hh, e) (snd (s_cb (fst (run_search keqb (logcb cb) vleb k d fuel h (c, []) root target cyc)))) ->
    is_trav_edge hh d e.
  Proof.
    intros vleb k d fuel h c root target cyc hh e.
    apply (@run_search_pres K V E keqb _ (logcb cb) d (log_ok d) (@logcb_log_ok K V E CB cb d)
             vleb k fuel h (c, []) root target cyc).
    intros hh0 e0 [].
  Qed.

  Theorem order_yields_exist : forall d post fuel h c root hh e,
    In (hh, e) (snd (s_cb (fst (order_edges keqb (logcb cb) d post fuel h (c, []) root)))) ->
    is_trav_edge hh d e.
  Proof.
    intros d post fuel h c root hh e.
    apply (@order_edges_pres K V E keqb _ (logcb cb) d (log_ok d) (@logcb_log_ok K V E CB cb d)
             post fuel h (c, []) root).
    intros hh0 e0 [].
  Qed.

  (* ---- 3. no panic whatever the callback does ---- *)
  Theorem search_never_panics : forall vleb k d fuel h c root target cyc,
    snd (search_path keqb cb vleb k d fuel h c root target cyc) <> RPanic E.
  Proof.
    intros vleb k d fuel h c root target cyc. unfold search_path.
    pose proof (run_search_found keqb cb vleb k d fuel h c root target cyc) as H.
    destruct (run_search keqb cb vleb k d fuel h c root target cyc) as [st r].
    cbn [fst snd] in H. destruct r; cbn [found_tree] in H; cbn [snd]; try discriminate.
    unfold backtrack. destruct (rev (s_tree st)) as [|w before] eqn:Hr.
    - exfalso. apply H. apply (f_equal (@rev _)) in Hr. rewrite rev_involutive in Hr. exact Hr.
    - cbn [snd]. discriminate.
  Qed.

  (* ---- 4. invariants ---- *)
  Theorem mk_cb_inv_d : KeqbSpec keqb -> forall is_filter pred script c (h : heap) e, Inv h ->
    (forall k i ops x, In (i, ops) script -> In (ONew k x) ops -> False) ->
    Inv (snd (fst (mk_cb (step_d keqb) is_filter pred script c h e))) /\
    (forall o, In o (c_log (fst (fst (mk_cb (step_d keqb) is_filter pred script c h e)))) ->
               In o (c_log c) \/ o <> Panic).
  Proof.
    intros Hk is_filter pred script c h e HInv Hno.
    exact (mk_cb_inv_nonew (step_d_ok Hk) is_filter pred script c e HInv Hno).
  Qed.

  Theorem mk_cb_inv_u : KeqbSpec keqb -> forall is_filter pred script c (h : heap) e, Inv h ->
    (forall k i ops x, In (i, ops) script -> In (ONew k x) ops -> False) ->
    Inv (snd (fst (mk_cb (step_u keqb) is_filter pred script c h e))) /\
    (forall o, In o (c_log (fst (fst (mk_cb (step_u keqb) is_filter pred script c h e)))) ->
               In o (c_log c) \/ o <> Panic).
  Proof.
    intros Hk is_filter pred script c h e HInv Hno.
    exact (mk_cb_inv_nonew (step_u_ok Hk) is_filter pred script c e HInv Hno).
  Qed.

  (* allocations allowed, provided the keys allocated by this invocation are new and distinct *)
  Theorem mk_cb_inv_d_new : KeqbSpec keqb -> forall is_filter pred script c (h : heap) e, Inv h ->
    NoDup (new_keys (script_at script (c_count c))) ->
    (forall k, In k (new_keys (script_at script (c_count c))) -> forall w, keyof h w <> Some k) ->
    Inv (snd (fst (mk_cb (step_d keqb) is_filter pred script c h e))) /\
    (forall o, In o (c_log (fst (fst (mk_cb (step_d keqb) is_filter pred script c h e)))) ->
               In o (c_log c) \/ o <> Panic).
  Proof.
    intros Hk is_filter pred script c h e HInv Hnd Hf.
    exact (mk_cb_inv_new (step_d_ok Hk) is_filter pred script c e HInv Hnd Hf).
  Qed.

  Theorem mk_cb_inv_u_new : KeqbSpec keqb -> forall is_filter pred script c (h : heap) e, Inv h ->
    NoDup (new_keys (script_at script (c_count c))) ->
    (forall k, In k (new_keys (script_at script (c_count c))) -> forall w, keyof h w <> Some k) ->
    Inv (snd (fst (mk_cb (step_u keqb) is_filter pred script c h e))) /\
    (forall o, In o (c_log (fst (fst (mk_cb (step_u keqb) is_filter pred script c h e)))) ->
               In o (c_log c) \/ o <> Panic).
  Proof.
    intros Hk is_filter pred script c h e HInv Hnd Hf.
    exact (mk_cb_inv_new (step_u_ok Hk) is_filter pred script c e HInv Hnd Hf).
  Qed.

  Theorem traversal_inv :
    (forall c h e, Inv h -> Inv (snd (fst (cb c h e)))) ->
    forall h, Inv h ->
      (forall vleb k d fuel c root target cyc,
         Inv (s_heap (fst (run_search keqb cb vleb k d fuel h c root target cyc)))) /\
      (forall d post fuel c root, Inv (s_heap (fst (order_edges keqb cb d post fuel h c root)))) /\
      (forall fuel d c u pos, Inv (snd (fst (edge_loop cb fuel d c h u pos)))).
  Proof.
    intros Hcb h HInv. split; [|split].
    - intros vleb k d fuel c root target cyc.
      apply (@run_search_pres K V E keqb CB cb d (fun h _ => Inv h)); [|exact HInv].
      intros h0 c0 u pos e H0 _. apply Hcb. exact H0.
    - intros d post fuel c root.
      apply (@order_edges_pres K V E keqb CB cb d (fun h _ => Inv h)); [|exact HInv].
      intros h0 c0 u pos e H0 _. apply Hcb. exact H0.
    - intros fuel d c u pos.
      apply (@edge_loop_pres K V E CB cb d u (fun h _ => Inv h)); [|exact HInv].
      intros h0 c0 pos0 e H0 _. apply Hcb. exact H0.
  Qed.

  (* ---- 5. termination of an edge loop ---- *)
  Theorem edge_loop_terminates : forall d u,
    (forall c h e, length (adj_of (snd (fst (cb c h e))) d u) <= length (adj_of h d u)) ->
    forall fuel c h pos, length (adj_of h d u) - pos < fuel ->
      snd (edge_loop cb fuel d c h u pos) = true.
  Proof. exact (edge_loop_terminates_ cb). Qed.
  (* ---- 6. termination of traversals when the closure adds nothing ---- *)
  Theorem traversal_terminates : KeqbSpec keqb ->
    (forall c h e w,
       nodes (snd (fst (cb c h e))) = nodes h /\
       length (outs (snd (fst (cb c h e))) w) <= length (outs h w) /\
       length (ins (snd (fst (cb c h e))) w) <= length (ins h w)) ->
    forall vleb k d fuel h c root target cyc, Wf h -> fuel_bound h <= fuel ->
      snd (run_search keqb cb vleb k d fuel h c root target cyc) <> OutOfFuel.
  Proof.
    intros Hk Hcb vleb k d fuel h c root target cyc Hwf Hfuel. unfold run_search.
    destruct k.
    - apply (wl_loop_terminates Hk cb Hcb (@fifo_push) (@fifo_pop) (@length nat));
        try assumption; try reflexivity.
      + intros q x. unfold fifo_push. rewrite app_length. cbn [length]. lia.
      + intros q x q' Hq. destruct q as [|y r]; [discriminate|]. cbn [fifo_pop] in Hq.
        injection Hq as _ <-. reflexivity.
    - apply (descend_terminates Hk cb Hcb); assumption.
    - apply (wl_loop_terminates Hk cb Hcb (heap_push (pq_le vleb h false))
               (heap_pop (pq_le vleb h false)) (@length nat));
        try assumption; try reflexivity.
      + intros q x. apply heap_push_length.
      + intros q x q'. apply heap_pop_length.
    - apply (wl_loop_terminates Hk cb Hcb (heap_push (pq_le vleb h true))
               (heap_pop (pq_le vleb h true)) (@length nat));
        try assumption; try reflexivity.
      + intros q x. apply heap_push_length.
      + intros q x q'. apply heap_pop_length.
  Qed.

  Theorem order_terminates : KeqbSpec keqb ->
    (forall c h e w,
       nodes (snd (fst (cb c h e))) = nodes h /\
       length (outs (snd (fst (cb c h e))) w) <= length (outs h w) /\
       length (ins (snd (fst (cb c h e))) w) <= length (ins h w)) ->
    forall d post fuel h c root, Wf h -> fuel_bound h <= fuel ->
      snd (order_edges keqb cb d post fuel h c root) <> None.
  Proof.
    intros Hk Hcb d post fuel h c root Hwf Hfuel. unfold order_edges.
    pose proof (@descend_terminates K V E keqb Hk CB cb Hcb d None post fuel h c root true Hwf Hfuel) as H.
    destruct (descend keqb cb d None post fuel (init_st h c root true) root 0) as [st r].
    cbn [snd] in H. destruct r; cbn [snd]; try discriminate. congruence.
  Qed.
End Final.

(* the harness' scripted callback (no allocations in the script) inside any machine: the heap
   invariant (mirror / well-formedness / key injectivity) holds in the returned state *)
Section Scripted.
  Variables K V E : Type.
  Variable keqb : K -> K -> bool.
  Hypothesis Hk : KeqbSpec keqb.
  Notation heap := (heap K V E).

  Theorem scripted_traversal_inv : forall (directed : bool) is_filter pred script,
    (forall k i ops x, In (i, ops) script -> In (ONew k x) ops -> False) ->
    let cb := mk_cb (if directed then step_d keqb else step_u keqb) is_filter pred script in
    forall h : heap, Inv h ->
      (forall vleb k d fuel c root target cyc,
         Inv (s_heap (fst (run_search keqb cb vleb k d fuel h c root target cyc)))) /\
      (forall d post fuel c root, Inv (s_heap (fst (order_edges keqb cb d post fuel h c root)))) /\
      (forall fuel d c u pos, Inv (snd (fst (edge_loop cb fuel d c h u pos)))).
  Proof.
    intros directed is_filter pred script Hno cb h HInv. subst cb.
    apply traversal_inv; [|exact HInv].
    intros c h1 e H1. destruct directed.
    - exact (proj1 (mk_cb_inv_d Hk is_filter pred script c e H1 Hno)).
    - exact (proj1 (mk_cb_inv_u Hk is_filter pred script c e H1 Hno)).
  Qed.
End Scripted.

Print Assumptions edge_loop_log_erase.
Print Assumptions run_search_log_erase.
Print Assumptions order_log_erase.
Print Assumptions adj_at_spec.
Print Assumptions edge_loop_yields_exist.
Print Assumptions traversal_yields_exist.
Print Assumptions order_yields_exist.
Print Assumptions search_never_panics.
Print Assumptions mk_cb_inv_d.
Print Assumptions mk_cb_inv_u.
Print Assumptions mk_cb_inv_d_new.
Print Assumptions mk_cb_inv_u_new.
Print Assumptions traversal_inv.
Print Assumptions edge_loop_terminates.
Print Assumptions traversal_terminates.
Print Assumptions order_terminates.
Print Assumptions scripted_traversal_inv.
