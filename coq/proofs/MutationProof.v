(* MutationProof.v — C20: node operations may be called while an edge loop or a traversal is in
   progress (from the loop body / the for_each / filter closure).  All statements are about the
   machines of Search.v run with an ARBITRARY heap-changing callback. *)
From Gdsl.Model Require Import Base NodeOps Search Callback Spec Mutation.
From Gdsl.Proofs Require NodeLemmas NodeList NodeD NodeListU NodeU.
From Coq Require Import Lia.

Set Implicit Arguments.

(* ------------------------------------------------------------------ *)
(* positions                                                           *)
(* ------------------------------------------------------------------ *)
Section Positions.
  Variables K V E : Type.
  Notation heap := (heap K V E).
  Notation edge := (edge E).

  Lemma adj_at_nth (h : heap) u pos : adj_at h u pos = nth_error (outs h u ++ ins h u) pos.
  Proof.
    unfold adj_at. destruct (nth_error (outs h u) pos) as [x|] eqn:Hn.
    - symmetry. rewrite nth_error_app1; [exact Hn|]. apply nth_error_Some. congruence.
    - apply nth_error_None in Hn. now rewrite nth_error_app2.
  Qed.

  Lemma edge_at_nth (h : heap) d u pos :
    edge_at h d u pos = option_map (fun p => (u, fst p, snd p)) (nth_error (adj_of h d u) pos).
  Proof. destruct d; cbn [edge_at adj_of]; try reflexivity. now rewrite adj_at_nth. Qed.

  Lemma edge_at_some (h : heap) d u pos e : edge_at h d u pos = Some e ->
    esrc e = u /\ In (edst e, eval e) (adj_of h d u) /\ pos < length (adj_of h d u).
  Proof.
    rewrite edge_at_nth. destruct (nth_error (adj_of h d u) pos) as [p|] eqn:Hn; [|discriminate].
    cbn [option_map]. intros Heq. injection Heq as <-.
    unfold esrc, edst, eval. cbn [fst snd]. split; [reflexivity|]. split.
    - destruct p as [v x]. cbn [fst snd]. eapply nth_error_In. exact Hn.
    - apply nth_error_Some. congruence.
  Qed.

  Lemma edge_at_trav (h : heap) d u pos e : edge_at h d u pos = Some e -> is_trav_edge h d e.
  Proof.
    intros H. destruct (edge_at_some _ _ _ _ H) as (Hs & Hin & _).
    unfold is_trav_edge. now rewrite Hs.
  Qed.

  Lemma iter_edge_some (h : heap) d u pos e : iter_edge h d u pos = Some e ->
    is_iter_edge h d e /\ (match d with DIn => edst e = u | _ => esrc e = u end) /\
    pos < length (adj_of h d u).
  Proof.
    destruct d; cbn [iter_edge adj_of is_iter_edge]; try rewrite adj_at_nth.
    - destruct (nth_error (outs h u) pos) as [[v x]|] eqn:Hn; [|discriminate].
      cbn [option_map fst snd]. intros Heq. injection Heq as <-.
      unfold esrc, edst, eval. cbn [fst snd]. split; [|split; [reflexivity|]].
      + eapply nth_error_In. exact Hn.
      + apply nth_error_Some. congruence.
    - destruct (nth_error (ins h u) pos) as [[v x]|] eqn:Hn; [|discriminate].
      cbn [option_map fst snd]. intros Heq. injection Heq as <-.
      unfold esrc, edst, eval. cbn [fst snd]. split; [|split; [reflexivity|]].
      + eapply nth_error_In. exact Hn.
      + apply nth_error_Some. congruence.
    - destruct (nth_error (outs h u ++ ins h u) pos) as [[v x]|] eqn:Hn; [|discriminate].
      cbn [option_map fst snd]. intros Heq. injection Heq as <-.
      unfold esrc, edst, eval. cbn [fst snd]. split; [|split; [reflexivity|]].
      + eapply nth_error_In. exact Hn.
      + apply nth_error_Some. congruence.
  Qed.
End Positions.

(* ------------------------------------------------------------------ *)
(* 1. erasure of the log wrapper                                       *)
(* ------------------------------------------------------------------ *)
Section Erase.
  Variables K V E : Type.
  Variable keqb : K -> K -> bool.
  Notation heap := (heap K V E).
  Notation edge := (edge E).
  Variable CB : Type.
  Variable cb : CB -> heap -> edge -> CB * heap * bool.
  Notation LCB := (CB * list (heap * edge))%type.

  Definition erase_st (st : sst K V E LCB) : sst K V E CB :=
    mkS (s_heap st) (fst (s_cb st)) (s_vis st) (s_tree st).

  Lemma logcb_eq c l h e :
    logcb cb (c, l) h e =
    ((fst (fst (cb c h e)), (h, e) :: l), snd (fst (cb c h e)), snd (cb c h e)).
  Proof. unfold logcb. cbn [fst snd]. destruct (cb c h e) as [[c1 h1] ok]. reflexivity. Qed.

  Lemma edge_loop_log_erase_ : forall fuel d c l h u pos,
    let r := edge_loop (logcb cb) fuel d (c, l) h u pos in
    edge_loop cb fuel d c h u pos = (fst (fst (fst r)), snd (fst r), snd r).
  Proof.
    induction fuel as [|f IH]; intros d c l h u pos; cbn [edge_loop].
    - reflexivity.
    - destruct (iter_edge h d u pos) as [e|]; [|reflexivity].
      rewrite logcb_eq.
      destruct (cb c h e) as [[c1 h1] ok]. cbn [fst snd]. apply IH.
  Qed.

  Lemma call_cb_erase st e :
    call_cb cb (erase_st st) e =
    (erase_st (fst (call_cb (logcb cb) st e)), snd (call_cb (logcb cb) st e)).
  Proof.
    unfold call_cb, logcb, erase_st. cbn [s_heap s_cb s_vis s_tree].
    destruct (cb (fst (s_cb st)) (s_heap st) e) as [[c1 h1] ok]. reflexivity.
  Qed.

  Lemma discover_erase st v eo : discover (erase_st st) v eo = erase_st (discover st v eo).
  Proof. reflexivity. Qed.

  Lemma push_tree_erase st e : push_tree (erase_st st) e = erase_st (push_tree st e).
  Proof. reflexivity. Qed.

  Lemma wl_scan_erase Q (qpush : Q -> nat -> Q) d target : forall fuel st q u pos,
    wl_scan keqb cb qpush d target fuel (erase_st st) q u pos =
    (let r := wl_scan keqb (logcb cb) qpush d target fuel st q u pos in
     (erase_st (fst (fst r)), snd (fst r), snd r)).
  Proof.
    induction fuel as [|f IH]; intros st q u pos; cbn [wl_scan].
    - reflexivity.
    - change (s_heap (erase_st st)) with (s_heap st).
      destruct (edge_at (s_heap st) d u pos) as [e|]; [|reflexivity].
      rewrite call_cb_erase.
      destruct (call_cb (logcb cb) st e) as [st1 ok]. cbn [fst snd].
      change (s_heap (erase_st st1)) with (s_heap st1).
      change (s_vis (erase_st st1)) with (s_vis st1).
      destruct (ok && negb (in_vis keqb (s_heap st1) (s_vis st1) (edst e))).
      + rewrite discover_erase.
        change (s_heap (erase_st (discover st1 (edst e) (Some e))))
          with (s_heap (discover st1 (edst e) (Some e))).
        destruct (is_target keqb (s_heap (discover st1 (edst e) (Some e))) target (edst e)).
        * reflexivity.
        * apply IH.
      + apply IH.
  Qed.

  Lemma wl_loop_erase Q (qpush : Q -> nat -> Q) qpop d target : forall fuel st q,
    wl_loop keqb cb qpush qpop d target fuel (erase_st st) q =
    (let r := wl_loop keqb (logcb cb) qpush qpop d target fuel st q in
     (erase_st (fst r), snd r)).
  Proof.
    induction fuel as [|f IH]; intros st q; cbn [wl_loop].
    - reflexivity.
    - destruct (qpop q) as [[u q']|]; [|reflexivity].
      rewrite wl_scan_erase.
      destruct (wl_scan keqb (logcb cb) qpush d target (S f) st q' u 0) as [[st1 q1] r].
      cbn [fst snd]. destruct r; try reflexivity. apply IH.
  Qed.

  Lemma descend_erase d target post : forall fuel st u pos,
    descend keqb cb d target post fuel (erase_st st) u pos =
    (let r := descend keqb (logcb cb) d target post fuel st u pos in
     (erase_st (fst r), snd r)).
  Proof.
    induction fuel as [|f IH]; intros st u pos; cbn [descend].
    - reflexivity.
    - change (s_heap (erase_st st)) with (s_heap st).
      destruct (edge_at (s_heap st) d u pos) as [e|]; [|reflexivity].
      rewrite call_cb_erase.
      destruct (call_cb (logcb cb) st e) as [st1 ok]. cbn [fst snd].
      change (s_heap (erase_st st1)) with (s_heap st1).
      change (s_vis (erase_st st1)) with (s_vis st1).
      destruct (ok && negb (in_vis keqb (s_heap st1) (s_vis st1) (edst e))).
      + rewrite discover_erase.
        set (st2 := discover st1 (edst e) (if post then None else Some e)).
        change (s_heap (erase_st st2)) with (s_heap st2).
        destruct (is_target keqb (s_heap st2) target (edst e)).
        * reflexivity.
        * rewrite IH.
          destruct (descend keqb (logcb cb) d target post f st2 (edst e) 0) as [st3 r].
          cbn [fst snd]. destruct r; try reflexivity.
          destruct post.
          -- rewrite push_tree_erase. apply IH.
          -- apply IH.
      + apply IH.
  Qed.

  Lemma init_st_erase h c l root b :
    init_st h c root b = erase_st (init_st h (c, l) root b).
  Proof. reflexivity. Qed.

  Lemma run_search_erase vleb k d fuel h c l root target cyc :
    run_search keqb cb vleb k d fuel h c root target cyc =
    (let r := run_search keqb (logcb cb) vleb k d fuel h (c, l) root target cyc in
     (erase_st (fst r), snd r)).
  Proof.
    unfold run_search. rewrite (init_st_erase h c l root (negb cyc)).
    destruct k; first [apply wl_loop_erase | apply descend_erase].
  Qed.

  Lemma order_edges_erase d post fuel h c l root :
    order_edges keqb cb d post fuel h c root =
    (let r := order_edges keqb (logcb cb) d post fuel h (c, l) root in
     (erase_st (fst r), snd r)).
  Proof.
    unfold order_edges. rewrite (init_st_erase h c l root true). rewrite descend_erase.
    destruct (descend keqb (logcb cb) d None post fuel (init_st h (c, l) root true) root 0)
      as [st r]. cbn [fst snd]. destruct r; reflexivity.
  Qed.
End Erase.

(* ------------------------------------------------------------------ *)
(* generic preservation of a (heap, callback state) predicate          *)
(* ------------------------------------------------------------------ *)
Section Pres.
  Variables K V E : Type.
  Variable keqb : K -> K -> bool.
  Notation heap := (heap K V E).
  Notation edge := (edge E).
  Variable CB : Type.
  Variable cb : CB -> heap -> edge -> CB * heap * bool.
  Variable d : dir.
  Variable P : heap -> CB -> Prop.
  Hypothesis Hcb : forall h c u pos e, P h c -> edge_at h d u pos = Some e ->
    P (snd (fst (cb c h e))) (fst (fst (cb c h e))).

  Definition PS (st : sst K V E CB) : Prop := P (s_heap st) (s_cb st).

  Lemma call_cb_pres st u pos e : PS st -> edge_at (s_heap st) d u pos = Some e ->
    PS (fst (call_cb cb st e)).
  Proof.
    unfold PS, call_cb. intros HP He. pose proof (@Hcb _ _ _ _ _ HP He) as H.
    destruct (cb (s_cb st) (s_heap st) e) as [[c1 h1] ok]. exact H.
  Qed.

  Lemma wl_scan_pres Q (qpush : Q -> nat -> Q) target : forall fuel st q u pos,
    PS st -> PS (fst (fst (wl_scan keqb cb qpush d target fuel st q u pos))).
  Proof.
    induction fuel as [|f IH]; intros st q u pos HP; cbn [wl_scan].
    - exact HP.
    - destruct (edge_at (s_heap st) d u pos) as [e|] eqn:He; [|exact HP].
      pose proof (@call_cb_pres _ _ _ _ HP He) as HP1.
      destruct (call_cb cb st e) as [st1 ok]. cbn [fst] in HP1.
      destruct (ok && negb (in_vis keqb (s_heap st1) (s_vis st1) (edst e))).
      + destruct (is_target keqb (s_heap (discover st1 (edst e) (Some e))) target (edst e)).
        * exact HP1.
        * apply IH. exact HP1.
      + apply IH. exact HP1.
  Qed.

  Lemma wl_loop_pres Q (qpush : Q -> nat -> Q) qpop target : forall fuel st q,
    PS st -> PS (fst (wl_loop keqb cb qpush qpop d target fuel st q)).
  Proof.
    induction fuel as [|f IH]; intros st q HP; cbn [wl_loop].
    - exact HP.
    - destruct (qpop q) as [[u q']|]; [|exact HP].
      pose proof (wl_scan_pres qpush target (S f) q' u 0 HP) as HP1.
      destruct (wl_scan keqb cb qpush d target (S f) st q' u 0) as [[st1 q1] r].
      cbn [fst] in HP1. destruct r; try exact HP1. apply IH. exact HP1.
  Qed.

  Lemma descend_pres target post : forall fuel st u pos,
    PS st -> PS (fst (descend keqb cb d target post fuel st u pos)).
  Proof.
    induction fuel as [|f IH]; intros st u pos HP; cbn [descend].
    - exact HP.
    - destruct (edge_at (s_heap st) d u pos) as [e|] eqn:He; [|exact HP].
      pose proof (@call_cb_pres _ _ _ _ HP He) as HP1.
      destruct (call_cb cb st e) as [st1 ok]. cbn [fst] in HP1.
      destruct (ok && negb (in_vis keqb (s_heap st1) (s_vis st1) (edst e))).
      + set (st2 := discover st1 (edst e) (if post then None else Some e)).
        assert (HP2 : PS st2) by exact HP1.
        destruct (is_target keqb (s_heap st2) target (edst e)).
        * exact HP2.
        * pose proof (IH st2 (edst e) 0 HP2) as HP3.
          destruct (descend keqb cb d target post f st2 (edst e) 0) as [st3 r].
          cbn [fst] in HP3. destruct r; try exact HP3.
          apply IH. destruct post; exact HP3.
      + apply IH. exact HP1.
  Qed.

  Lemma run_search_pres vleb k fuel h c root target cyc :
    P h c -> PS (fst (run_search keqb cb vleb k d fuel h c root target cyc)).
  Proof.
    intros HP. unfold run_search.
    destruct k; first [apply wl_loop_pres | apply descend_pres]; exact HP.
  Qed.

  Lemma order_edges_pres post fuel h c root :
    P h c -> PS (fst (order_edges keqb cb d post fuel h c root)).
  Proof.
    intros HP. unfold order_edges.
    pose proof (@descend_pres None post fuel (init_st h c root true) root 0 HP) as H.
    destruct (descend keqb cb d None post fuel (init_st h c root true) root 0) as [st r].
    cbn [fst] in H. destruct r; exact H.
  Qed.
End Pres.

(* the same for the plain edge loop *)
Section PresLoop.
  Variables K V E : Type.
  Notation heap := (heap K V E).
  Notation edge := (edge E).
  Variable CB : Type.
  Variable cb : CB -> heap -> edge -> CB * heap * bool.
  Variable d : dir.
  Variable u : nat.
  Variable P : heap -> CB -> Prop.
  Hypothesis Hcb : forall h c pos e, P h c -> iter_edge h d u pos = Some e ->
    P (snd (fst (cb c h e))) (fst (fst (cb c h e))).

  Lemma edge_loop_pres : forall fuel c h pos, P h c ->
    P (snd (fst (edge_loop cb fuel d c h u pos))) (fst (fst (edge_loop cb fuel d c h u pos))).
  Proof.
    induction fuel as [|f IH]; intros c h pos HP; cbn [edge_loop].
    - exact HP.
    - destruct (iter_edge h d u pos) as [e|] eqn:He; [|exact HP].
      pose proof (@Hcb _ _ _ _ HP He) as H1.
      destruct (cb c h e) as [[c1 h1] ok]. cbn [fst snd] in H1. apply IH. exact H1.
  Qed.
End PresLoop.

(* ------------------------------------------------------------------ *)
(* 2. every yielded edge exists when it is yielded                     *)
(* ------------------------------------------------------------------ *)
Section Yields.
  Variables K V E : Type.
  Variable keqb : K -> K -> bool.
  Notation heap := (heap K V E).
  Notation edge := (edge E).
  Variable CB : Type.
  Variable cb : CB -> heap -> edge -> CB * heap * bool.
  Notation LCB := (CB * list (heap * edge))%type.

  Definition iter_ok (d : dir) (u : nat) (hh : heap) (e : edge) : Prop :=
    is_iter_edge hh d e /\ (match d with DIn => edst e = u | _ => esrc e = u end).

  Lemma edge_loop_yields_gen d u (l0 : list (heap * edge)) : forall fuel (cl : LCB) h pos,
    (forall hh e, In (hh, e) (snd cl) -> In (hh, e) l0 \/ iter_ok d u hh e) ->
    forall hh e, In (hh, e) (snd (fst (fst (edge_loop (logcb cb) fuel d cl h u pos)))) ->
      In (hh, e) l0 \/ iter_ok d u hh e.
  Proof.
    intros fuel cl h pos H0.
    apply (@edge_loop_pres K V E LCB (logcb cb) d u
             (fun _ cl => forall hh e, In (hh, e) (snd cl) -> In (hh, e) l0 \/ iter_ok d u hh e));
      [|exact H0].
    clear. intros h [c l] pos e HP He hh e' Hin.
    rewrite logcb_eq in Hin. cbn [fst snd] in Hin. destruct Hin as [Heq|Hin].
    - injection Heq as <- <-. right.
      destruct (iter_edge_some _ _ _ _ He) as (H1 & H2 & _). split; assumption.
    - apply HP. exact Hin.
  Qed.

  Definition log_ok (d : dir) (h : heap) (cl : LCB) : Prop :=
    forall hh e, In (hh, e) (snd cl) -> is_trav_edge hh d e.

  Lemma logcb_log_ok d : forall h (c : LCB) u pos e, log_ok d h c -> edge_at h d u pos = Some e ->
    log_ok d (snd (fst (logcb cb c h e))) (fst (fst (logcb cb c h e))).
  Proof.
    intros h [c l] u pos e HP He hh e' Hin.
    rewrite logcb_eq in Hin. cbn [fst snd] in Hin. destruct Hin as [Heq|Hin].
    - injection Heq as <- <-. eapply edge_at_trav. exact He.
    - apply (HP hh e'). exact Hin.
  Qed.
End Yields.

(* ------------------------------------------------------------------ *)
(* 3. no panic: Found is only reported with a non-empty tree            *)
(* ------------------------------------------------------------------ *)
Section NoPanic.
  Variables K V E : Type.
  Variable keqb : K -> K -> bool.
  Notation heap := (heap K V E).
  Notation edge := (edge E).
  Variable CB : Type.
  Variable cb : CB -> heap -> edge -> CB * heap * bool.

  Definition found_tree (st : sst K V E CB) (r : status) : Prop :=
    match r with Found _ => s_tree st <> [] | _ => True end.

  Lemma discover_tree_nonempty (st : sst K V E CB) v e : s_tree (discover st v (Some e)) <> [].
  Proof. cbn [discover s_tree]. intros H. symmetry in H. exact (app_cons_not_nil _ _ _ H). Qed.

  Lemma wl_scan_found Q (qpush : Q -> nat -> Q) d target : forall fuel st q u pos,
    found_tree (fst (fst (wl_scan keqb cb qpush d target fuel st q u pos)))
               (snd (wl_scan keqb cb qpush d target fuel st q u pos)).
  Proof.
    induction fuel as [|f IH]; intros st q u pos; cbn [wl_scan].
    - exact I.
    - destruct (edge_at (s_heap st) d u pos) as [e|]; [|exact I].
      destruct (call_cb cb st e) as [st1 ok].
      destruct (ok && negb (in_vis keqb (s_heap st1) (s_vis st1) (edst e))).
      + destruct (is_target keqb (s_heap (discover st1 (edst e) (Some e))) target (edst e)).
        * cbn [fst snd found_tree]. apply discover_tree_nonempty.
        * apply IH.
      + apply IH.
  Qed.

  Lemma wl_loop_found Q (qpush : Q -> nat -> Q) qpop d target : forall fuel st q,
    found_tree (fst (wl_loop keqb cb qpush qpop d target fuel st q))
               (snd (wl_loop keqb cb qpush qpop d target fuel st q)).
  Proof.
    induction fuel as [|f IH]; intros st q; cbn [wl_loop].
    - exact I.
    - destruct (qpop q) as [[u q']|]; [|exact I].
      pose proof (wl_scan_found qpush d target (S f) st q' u 0) as H.
      destruct (wl_scan keqb cb qpush d target (S f) st q' u 0) as [[st1 q1] r].
      cbn [fst snd] in H. destruct r; cbn [fst snd]; try exact H. apply IH.
  Qed.

  Lemma descend_found d target : forall fuel st u pos,
    found_tree (fst (descend keqb cb d target false fuel st u pos))
               (snd (descend keqb cb d target false fuel st u pos)).
  Proof.
    induction fuel as [|f IH]; intros st u pos; cbn [descend].
    - exact I.
    - destruct (edge_at (s_heap st) d u pos) as [e|]; [|exact I].
      destruct (call_cb cb st e) as [st1 ok].
      destruct (ok && negb (in_vis keqb (s_heap st1) (s_vis st1) (edst e))).
      + destruct (is_target keqb (s_heap (discover st1 (edst e) (Some e))) target (edst e)).
        * cbn [fst snd found_tree]. apply discover_tree_nonempty.
        * pose proof (IH (discover st1 (edst e) (Some e)) (edst e) 0) as H.
          destruct (descend keqb cb d target false f (discover st1 (edst e) (Some e)) (edst e) 0)
            as [st3 r].
          cbn [fst snd] in H. destruct r; cbn [fst snd]; try exact H. apply IH.
      + apply IH.
  Qed.

  Lemma run_search_found vleb k d fuel h c root target cyc :
    found_tree (fst (run_search keqb cb vleb k d fuel h c root target cyc))
               (snd (run_search keqb cb vleb k d fuel h c root target cyc)).
  Proof.
    unfold run_search. destruct k; first [apply wl_loop_found | apply descend_found].
  Qed.
End NoPanic.

(* ------------------------------------------------------------------ *)
(* 4. the scripted callback keeps the heap invariant                   *)
(* ------------------------------------------------------------------ *)
Section MkCb.
  Variables K V E : Type.
  Variable keqb : K -> K -> bool.
  Hypothesis Hk : KeqbSpec keqb.
  Notation heap := (heap K V E).
  Notation edge := (edge E).

  Definition StepOK (step : heap -> op K V E -> heap * outcome E) : Prop :=
    forall h o, Inv h ->
      (forall k x, o = ONew k x -> forall w, keyof h w <> Some k) ->
      Inv (fst (step h o)) /\ snd (step h o) <> Panic /\
      (forall w k, keyof (fst (step h o)) w = Some k ->
                   keyof h w = Some k \/ exists x, o = ONew k x).

  Lemma step_u_ok : StepOK (step_u keqb).
  Proof. intros h o HInv Hf. exact (@NodeU.step_u_full K V E keqb Hk h o HInv Hf). Qed.

  Lemma step_d_ok : StepOK (step_d keqb).
  Proof.
    intros h o HInv Hf. destruct (NodeD.step_d_full Hk HInv Hf) as (H1 & H2 & H3).
    split; [exact H1|]. split; [exact H2|].
    intros w k Hw. unfold keyof in Hw. rewrite H3 in Hw.
    destruct o as [k0 x0|? ? ?|? ? ?|? ?|?]; try (left; exact Hw).
    change (keyof (alloc h k0 x0) w = Some k) in Hw.
    rewrite NodeD.keyof_alloc in Hw.
    destruct (Nat.ltb w (size h)); [left; exact Hw|].
    destruct (Nat.eqb w (size h)); [|discriminate].
    injection Hw as <-. right. now exists x0.
  Qed.

  Section Generic.
    Variable step : heap -> op K V E -> heap * outcome E.
    Hypothesis Hstep : StepOK step.

    Lemma run_ops_inv : forall ops h log, Inv h -> NoDup (new_keys ops) ->
      (forall k, In k (new_keys ops) -> forall w, keyof h w <> Some k) ->
      Inv (fst (run_ops step h ops log)) /\
      (forall o, In o (snd (run_ops step h ops log)) -> In o log \/ o <> Panic).
    Proof.
      induction ops as [|o r IH]; intros h log HInv Hnd Hfresh; cbn [run_ops].
      - cbn [fst snd]. split; [exact HInv|]. intros o Ho. now left.
      - assert (Hfo : forall k x, o = ONew k x -> forall w, keyof h w <> Some k).
        { intros k x -> w. apply Hfresh. cbn [new_keys]. now left. }
        destruct (Hstep HInv Hfo) as (HI1 & Hnp & Hkeys).
        destruct (step h o) as [h1 x1]. cbn [fst snd] in HI1, Hnp, Hkeys.
        assert (Hnd' : NoDup (new_keys r)).
        { destruct o; cbn [new_keys] in Hnd; try exact Hnd. now inversion Hnd. }
        assert (Hfresh' : forall k, In k (new_keys r) -> forall w, keyof h1 w <> Some k).
        { intros k Hin w Hw. destruct (Hkeys w k Hw) as [Hold|[x ->]].
          - refine (Hfresh k _ w Hold). destruct o; cbn [new_keys]; auto. now right.
          - cbn [new_keys] in Hnd. inversion Hnd; subst. contradiction. }
        destruct (IH h1 (x1 :: log) HI1 Hnd' Hfresh') as [HI2 Hlog].
        split; [exact HI2|]. intros o' Ho'. destruct (Hlog o' Ho') as [[<-|Hin]|Hne].
        + now right.
        + now left.
        + now right.
    Qed.

    Lemma mk_cb_inv_new is_filter pred script c h e :
      Inv h ->
      NoDup (new_keys (script_at script (c_count c))) ->
      (forall k, In k (new_keys (script_at script (c_count c))) -> forall w, keyof h w <> Some k) ->
      Inv (snd (fst (mk_cb step is_filter pred script c h e))) /\
      (forall o, In o (c_log (fst (fst (mk_cb step is_filter pred script c h e)))) ->
                 In o (c_log c) \/ o <> Panic).
    Proof.
      intros HInv Hnd Hfresh. unfold mk_cb.
      pose proof (run_ops_inv (script_at script (c_count c)) (c_log c) HInv Hnd Hfresh) as H.
      destruct (run_ops step h (script_at script (c_count c)) (c_log c)) as [h1 log1].
      cbn [fst snd c_log] in *. exact H.
    Qed.

    Lemma script_at_in (script : list (nat * list (op K V E))) k o :
      In o (script_at script k) -> exists i ops, In (i, ops) script /\ In o ops.
    Proof.
      induction script as [|[i ops] r IH]; cbn [script_at]; intros Hin; [contradiction|].
      destruct (Nat.eqb i k).
      - apply in_app_or in Hin. destruct Hin as [Hin|Hin].
        + exists i, ops. split; [now left|exact Hin].
        + destruct (IH Hin) as (i' & ops' & H1 & H2). exists i', ops'. split; [now right|exact H2].
      - destruct (IH Hin) as (i' & ops' & H1 & H2). exists i', ops'. split; [now right|exact H2].
    Qed.

    Lemma no_new_keys (ops : list (op K V E)) :
      (forall k x, ~ In (ONew k x) ops) -> new_keys ops = [].
    Proof.
      induction ops as [|o r IH]; intros H; [reflexivity|].
      destruct o as [k x|? ? ?|? ? ?|? ?|?]; cbn [new_keys];
        try (apply IH; intros k' x' Hin; apply (H k' x'); now right).
      exfalso. apply (H k x). now left.
    Qed.

    Lemma mk_cb_inv_nonew is_filter pred script c h e :
      Inv h ->
      (forall k i ops x, In (i, ops) script -> In (ONew k x) ops -> False) ->
      Inv (snd (fst (mk_cb step is_filter pred script c h e))) /\
      (forall o, In o (c_log (fst (fst (mk_cb step is_filter pred script c h e)))) ->
                 In o (c_log c) \/ o <> Panic).
    Proof.
      intros HInv Hno.
      assert (Hnk : new_keys (script_at script (c_count c)) = []).
      { apply no_new_keys. intros k x Hin.
        destruct (script_at_in _ _ _ Hin) as (i & ops & H1 & H2). exact (Hno k i ops x H1 H2). }
      apply mk_cb_inv_new; [exact HInv| |]; rewrite Hnk.
      - constructor.
      - intros k [].
    Qed.
  End Generic.
End MkCb.

(* ------------------------------------------------------------------ *)
(* 5. termination of an edge loop                                      *)
(* ------------------------------------------------------------------ *)
Section LoopTerm.
  Variables K V E : Type.
  Notation heap := (heap K V E).
  Notation edge := (edge E).
  Variable CB : Type.
  Variable cb : CB -> heap -> edge -> CB * heap * bool.

  Lemma edge_loop_terminates_ d u :
    (forall c h e, length (adj_of (snd (fst (cb c h e))) d u) <= length (adj_of h d u)) ->
    forall fuel c h pos, length (adj_of h d u) - pos < fuel ->
      snd (edge_loop cb fuel d c h u pos) = true.
  Proof.
    intros Hle. induction fuel as [|f IH]; intros c h pos Hf; [lia|]. cbn [edge_loop].
    destruct (iter_edge h d u pos) as [e|] eqn:He; [|reflexivity].
    destruct (iter_edge_some _ _ _ _ He) as (_ & _ & Hpos).
    pose proof (Hle c h e) as Hl.
    destruct (cb c h e) as [[c1 h1] ok]. cbn [fst snd] in Hl. apply IH. lia.
  Qed.
End LoopTerm.

(* ================================================================== *)
(* FINAL THEOREMS                                                      *)
(* ================================================================== *)
Section Final.
  Variables K V E : Type.
  Variable keqb : K -> K -> bool.
  Notation heap := (heap K V E).
  Notation edge := (edge E).
  Variable CB : Type.
  Variable cb : CB -> heap -> edge -> CB * heap * bool.

  (* ---- 1. erasure ---- *)
  Theorem edge_loop_log_erase : forall fuel d c l h u pos,
    let r := edge_loop (logcb cb) fuel d (c, l) h u pos in
    edge_loop cb fuel d c h u pos = (fst (fst (fst r)), snd (fst r), snd r).
  Proof. exact (edge_loop_log_erase_ cb). Qed.

  Theorem run_search_log_erase : forall vleb k d fuel h c l root target cyc,
    let r := run_search keqb (logcb cb) vleb k d fuel h (c, l) root target cyc in
    let r0 := run_search keqb cb vleb k d fuel h c root target cyc in
    snd r0 = snd r /\
    s_heap (fst r0) = s_heap (fst r) /\
    s_vis (fst r0) = s_vis (fst r) /\
    s_tree (fst r0) = s_tree (fst r) /\
    s_cb (fst r0) = fst (s_cb (fst r)).
  Proof.
    intros vleb k d fuel h c l root target cyc r r0. subst r r0.
    rewrite (run_search_erase keqb cb vleb k d fuel h c l root target cyc).
    cbn [fst snd]. repeat split; reflexivity.
  Qed.

  Theorem order_log_erase : forall d post fuel h c l root,
    let r := order_edges keqb (logcb cb) d post fuel h (c, l) root in
    let r0 := order_edges keqb cb d post fuel h c root in
    snd r0 = snd r /\
    s_heap (fst r0) = s_heap (fst r) /\
    s_vis (fst r0) = s_vis (fst r) /\
    s_tree (fst r0) = s_tree (fst r) /\
    s_cb (fst r0) = fst (s_cb (fst r)).
  Proof.
    intros d post fuel h c l root r r0. subst r r0.
    rewrite (order_edges_erase keqb cb d post fuel h c l root).
    cbn [fst snd]. repeat split; reflexivity.
  Qed.

  (* ---- 2. yielded edges exist at the moment they are yielded ---- *)
  Theorem adj_at_spec : forall (h : heap) u pos,
    adj_at h u pos = nth_error (outs h u ++ ins h u) pos.
  Proof. exact (@adj_at_nth K V E). Qed.

  Theorem edge_loop_yields_exist : forall fuel d c h u pos c' l' h' ok,
    edge_loop (logcb cb) fuel d (c, []) h u pos = ((c', l'), h', ok) ->
    forall hh e, In (hh, e) l' ->
      is_iter_edge hh d e /\ (match d with DIn => edst e = u | _ => esrc e = u end).
  Proof.
    intros fuel d c h u pos c' l' h' ok Hrun hh e Hin.
    destruct (@edge_loop_yields_gen K V E CB cb d u [] fuel (c, []) h pos) with (hh := hh) (e := e)
      as [[]|H].
    - intros hh0 e0 [].
    - rewrite Hrun. exact Hin.
    - exact H.
  Qed.

  Theorem traversal_yields_exist : forall vleb k d fuel h c root target cyc hh e,
    In (hh, e) (snd (s_cb (fst (run_search keqb (logcb cb) vleb k d fuel h (c, []) root target cyc)))) ->
    is_trav_edge hh d e.
  Proof.
    intros vleb k d fuel h c root target cyc hh e.
    apply (@run_search_pres K V E keqb _ (logcb cb) d (log_ok d) (@logcb_log_ok K V E CB cb d)
             vleb k fuel h (c, []) root target cyc).
    intros hh0 e0 [].
  Qed.

  Theorem order_yields_exist : forall d post fuel h c root hh e,
    In (hh, e) (snd (s_cb (fst (order_edges keqb (logcb cb) d post fuel h (c, []) root)))) ->
    is_trav_edge hh d e.
  Proof.
    intros d post fuel h c root hh e.
    apply (@order_edges_pres K V E keqb _ (logcb cb) d (log_ok d) (@logcb_log_ok K V E CB cb d)
             post fuel h (c, []) root).
    intros hh0 e0 [].
  Qed.

  (* ---- 3. no panic whatever the callback does ---- *)
  Theorem search_never_panics : forall vleb k d fuel h c root target cyc,
    snd (search_path keqb cb vleb k d fuel h c root target cyc) <> RPanic E.
  Proof.
    intros vleb k d fuel h c root target cyc. unfold search_path.
    pose proof (run_search_found keqb cb vleb k d fuel h c root target cyc) as H.
    destruct (run_search keqb cb vleb k d fuel h c root target cyc) as [st r].
    cbn [fst snd] in H. destruct r; cbn [found_tree] in H; cbn [snd]; try discriminate.
    unfold backtrack. destruct (rev (s_tree st)) as [|w before] eqn:Hr.
    - exfalso. apply H. apply (f_equal (@rev _)) in Hr. rewrite rev_involutive in Hr. exact Hr.
    - cbn [snd]. discriminate.
  Qed.

  (* ---- 4. invariants ---- *)
  Theorem mk_cb_inv_d : KeqbSpec keqb -> forall is_filter pred script c (h : heap) e, Inv h ->
    (forall k i ops x, In (i, ops) script -> In (ONew k x) ops -> False) ->
    Inv (snd (fst (mk_cb (step_d keqb) is_filter pred script c h e))) /\
    (forall o, In o (c_log (fst (fst (mk_cb (step_d keqb) is_filter pred script c h e)))) ->
               In o (c_log c) \/ o <> Panic).
  Proof.
    intros Hk is_filter pred script c h e HInv Hno.
    exact (mk_cb_inv_nonew (step_d_ok Hk) is_filter pred script c e HInv Hno).
  Qed.

  Theorem mk_cb_inv_u : KeqbSpec keqb -> forall is_filter pred script c (h : heap) e, Inv h ->
    (forall k i ops x, In (i, ops) script -> In (ONew k x) ops -> False) ->
    Inv (snd (fst (mk_cb (step_u keqb) is_filter pred script c h e))) /\
    (forall o, In o (c_log (fst (fst (mk_cb (step_u keqb) is_filter pred script c h e)))) ->
               In o (c_log c) \/ o <> Panic).
  Proof.
    intros Hk is_filter pred script c h e HInv Hno.
    exact (mk_cb_inv_nonew (step_u_ok Hk) is_filter pred script c e HInv Hno).
  Qed.

  (* allocations allowed, provided the keys allocated by this invocation are new and distinct *)
  Theorem mk_cb_inv_d_new : KeqbSpec keqb -> forall is_filter pred script c (h : heap) e, Inv h ->
    NoDup (new_keys (script_at script (c_count c))) ->
    (forall k, In k (new_keys (script_at script (c_count c))) -> forall w, keyof h w <> Some k) ->
    Inv (snd (fst (mk_cb (step_d keqb) is_filter pred script c h e))) /\
    (forall o, In o (c_log (fst (fst (mk_cb (step_d keqb) is_filter pred script c h e)))) ->
               In o (c_log c) \/ o <> Panic).
  Proof.
    intros Hk is_filter pred script c h e HInv Hnd Hf.
    exact (mk_cb_inv_new (step_d_ok Hk) is_filter pred script c e HInv Hnd Hf).
  Qed.

  Theorem mk_cb_inv_u_new : KeqbSpec keqb -> forall is_filter pred script c (h : heap) e, Inv h ->
    NoDup (new_keys (script_at script (c_count c))) ->
    (forall k, In k (new_keys (script_at script (c_count c))) -> forall w, keyof h w <> Some k) ->
    Inv (snd (fst (mk_cb (step_u keqb) is_filter pred script c h e))) /\
    (forall o, In o (c_log (fst (fst (mk_cb (step_u keqb) is_filter pred script c h e)))) ->
               In o (c_log c) \/ o <> Panic).
  Proof.
    intros Hk is_filter pred script c h e HInv Hnd Hf.
    exact (mk_cb_inv_new (step_u_ok Hk) is_filter pred script c e HInv Hnd Hf).
  Qed.

  Theorem traversal_inv :
    (forall c h e, Inv h -> Inv (snd (fst (cb c h e)))) ->
    forall h, Inv h ->
      (forall vleb k d fuel c root target cyc,
         Inv (s_heap (fst (run_search keqb cb vleb k d fuel h c root target cyc)))) /\
      (forall d post fuel c root, Inv (s_heap (fst (order_edges keqb cb d post fuel h c root)))) /\
      (forall fuel d c u pos, Inv (snd (fst (edge_loop cb fuel d c h u pos)))).
  Proof.
    intros Hcb h HInv. split; [|split].
    - intros vleb k d fuel c root target cyc.
      apply (@run_search_pres K V E keqb CB cb d (fun h _ => Inv h)); [|exact HInv].
      intros h0 c0 u pos e H0 _. apply Hcb. exact H0.
    - intros d post fuel c root.
      apply (@order_edges_pres K V E keqb CB cb d (fun h _ => Inv h)); [|exact HInv].
      intros h0 c0 u pos e H0 _. apply Hcb. exact H0.
    - intros fuel d c u pos.
      apply (@edge_loop_pres K V E CB cb d u (fun h _ => Inv h)); [|exact HInv].
      intros h0 c0 pos0 e H0 _. apply Hcb. exact H0.
  Qed.

  (* ---- 5. termination of an edge loop ---- *)
  Theorem edge_loop_terminates : forall d u,
    (forall c h e, length (adj_of (snd (fst (cb c h e))) d u) <= length (adj_of h d u)) ->
    forall fuel c h pos, length (adj_of h d u) - pos < fuel ->
      snd (edge_loop cb fuel d c h u pos) = true.
  Proof. exact (edge_loop_terminates_ cb). Qed.
End Final.

Print Assumptions edge_loop_log_erase.
Print Assumptions run_search_log_erase.
Print Assumptions order_log_erase.
Print Assumptions adj_at_spec.
Print Assumptions edge_loop_yields_exist.
Print Assumptions traversal_yields_exist.
Print Assumptions order_yields_exist.
Print Assumptions search_never_panics.
Print Assumptions mk_cb_inv_d.
Print Assumptions mk_cb_inv_u.
Print Assumptions mk_cb_inv_d_new.
Print Assumptions mk_cb_inv_u_new.
Print Assumptions traversal_inv.
Print Assumptions edge_loop_terminates.
