(* Glue.v — small corollaries that restate delivered lemmas in the shape the property files pin *)
From Gdsl.Model Require Import Spec.
From Gdsl.Proofs Require Import NodeD NodeU.
From Coq Require Import Lia.

Set Implicit Arguments.

Section Glue.
  Variables K V E : Type.
  Variable keqb : K -> K -> bool.
  Hypothesis Hk : KeqbSpec keqb.

  Lemma new_keys_app (a b : list (op K V E)) : new_keys (a ++ b) = new_keys a ++ new_keys b.
  Proof.
    induction a as [|o a IH]; [reflexivity|].
    destruct o; cbn [app new_keys]; rewrite ?IH; reflexivity.
  Qed.

  Lemma keysfresh_prefix (a b : list (op K V E)) : KeysFresh (a ++ b) -> KeysFresh a.
  Proof.
    unfold KeysFresh. rewrite new_keys_app. intros H.
    induction (new_keys a) as [|k l IH]; [constructor|].
    cbn in H. inversion H as [|? ? Hn Hd]; subst. constructor.
    - intros Hin. apply Hn. apply in_or_app. now left.
    - now apply IH.
  Qed.

  Lemma run_d_prefix_inv (a b : list (op K V E)) :
    KeysFresh (a ++ b) -> Inv (fst (run_d keqb a)) /\ NoPanic (snd (run_d keqb a)).
  Proof. intros H. apply run_d_inv; [exact Hk|]. eapply keysfresh_prefix; eauto. Qed.

  Lemma run_u_prefix_inv (a b : list (op K V E)) :
    KeysFresh (a ++ b) -> Inv (fst (run_u keqb a)) /\ NoPanic (snd (run_u keqb a)).
  Proof. intros H. apply run_u_inv; [exact Hk|]. eapply keysfresh_prefix; eauto. Qed.

  Lemma run_d_mirror (ops : list (op K V E)) :
    KeysFresh ops -> forall u v, to_ v (outs (fst (run_d keqb ops)) u) = to_ u (ins (fst (run_d keqb ops)) v).
  Proof. intros H. destruct (@run_d_inv _ _ _ _ Hk ops H) as [[Hm _] _]. exact Hm. Qed.

  Lemma run_u_symmetric (ops : list (op K V E)) :
    KeysFresh ops -> forall u v,
      Permutation (to_ v (adj_u (fst (run_u keqb ops)) u)) (to_ u (adj_u (fst (run_u keqb ops)) v)).
  Proof. intros H. destruct (@run_u_inv _ _ _ _ Hk ops H) as [[Hm _] _]. now apply adj_symmetric. Qed.
End Glue.
