(* TwinProof.v — the (small) Coq side of C15 *)
From Gdsl.Model Require Import Spec EdgeCmp.

Set Implicit Arguments.

(* both twins are compared with ONE model: agreeing with it, they agree with each other *)
Lemma twins_agree (A B : Type) (plain sync model : A -> B) :
  (forall c, plain c = model c) -> (forall c, sync c = model c) -> forall c, plain c = sync c.
Proof. intros Hp Hs c. now rewrite Hp, Hs. Qed.

Section EdgeCmpProof.
  Variables K V E : Type.
  Variable keqb : K -> K -> bool.
  Hypothesis Hk : KeqbSpec keqb.
  Variable ecmp : E -> E -> comparison.

  Lemma same_key_spec (h : heap K V E) u w ku kw :
    keyof h u = Some ku -> keyof h w = Some kw -> (same_key keqb h u w = true <-> ku = kw).
  Proof.
    intros Hu Hw. unfold same_key, has_key. rewrite Hu, Hw. split.
    - intros H. apply Hk in H. now subst.
    - intros ->. now apply Hk.
  Qed.

  (* directed Edge: == is equality of both endpoints (node equality = key equality); the value is ignored *)
  Lemma edge_eqb_d_spec (h : heap K V E) (a b : edge E) ks kt ks' kt' :
    keyof h (esrc a) = Some ks -> keyof h (edst a) = Some kt ->
    keyof h (esrc b) = Some ks' -> keyof h (edst b) = Some kt' ->
    (edge_eqb_d keqb h a b = true <-> ks = ks' /\ kt = kt').
  Proof.
    intros H1 H2 H3 H4. unfold edge_eqb_d. rewrite Bool.andb_true_iff.
    rewrite (same_key_spec h _ _ H1 H3), (same_key_spec h _ _ H2 H4). tauto.
  Qed.

  (* Edge: Ord / PartialOrd compare the edge values; undirected == is equality of the values *)
  Lemma edge_cmp_spec (a b : edge E) : edge_cmp ecmp a b = ecmp (eval a) (eval b).
  Proof. reflexivity. Qed.

  Lemma edge_eqb_u_spec (a b : edge E) : edge_eqb_u ecmp a b = true <-> ecmp (eval a) (eval b) = Eq.
  Proof. unfold edge_eqb_u. destruct (ecmp (eval a) (eval b)); split; congruence. Qed.

  Lemma edge_reverse_spec (a : edge E) :
    esrc (edge_reverse a) = edst a /\ edst (edge_reverse a) = esrc a /\ eval (edge_reverse a) = eval a /\
    edge_reverse (edge_reverse a) = a.
  Proof. destruct a as [[s t] e]. repeat split. Qed.
End EdgeCmpProof.
