(* MutationBudget.v — C20, termination "once the closure stops adding edges".
   MutationProof.v proves termination of edge loops / searches / orderings for callbacks that NEVER
   lengthen an adjacency list and never change [nodes].  Here the callback may grow the graph as long
   as the growth is paid for by a BUDGET carried in its own state:
       budget c' <= budget c                                   (the budget never increases)
       every walked list grows by at most  g  * (budget c - budget c')
       [nodes] is only appended to, by at most gn * (budget c - budget c') allocations
   so a closure whose budget is used up adds nothing any more, but it may add edges (and nodes)
   during finitely many earlier invocations.  The old theorems are the instance budget := fun _ => 0. *)
From Gdsl.Model Require Import Base NodeOps Search Callback Spec Mutation.
From Gdsl.Proofs Require Import MutationProof.
From Coq Require Import Lia.

Set Implicit Arguments.

Lemma budget_pay g b b' : b' <= b -> g * (b - b') + g * b' = g * b.
Proof. intros H. rewrite <- Nat.mul_add_distr_l. f_equal. lia. Qed.

(* ------------------------------------------------------------------ *)
(* 0. the hypotheses on the callback                                   *)
(* ------------------------------------------------------------------ *)
Section Hyps.
  Variables K V E CB : Type.
  Notation heap := (heap K V E).
  Notation edge := (edge E).
  Variable cb : CB -> heap -> edge -> CB * heap * bool.
  Variable budget : CB -> nat.

  (* what one invocation spends *)
  Definition spent (c : CB) (h : heap) (e : edge) : nat :=
    budget c - budget (fst (fst (cb c h e))).

  (* for a plain loop over the list of u in direction d *)
  Definition LoopBudget (d : dir) (u : nat) (g : nat) : Prop :=
    forall c h e,
      budget (fst (fst (cb c h e))) <= budget c /\
      length (adj_of (snd (fst (cb c h e))) d u) <= length (adj_of h d u) + g * spent c h e.

  (* for a traversal in direction d: every list it may walk, and the node table *)
  Definition TravBudget (d : dir) (gn g : nat) : Prop :=
    forall c h e,
      budget (fst (fst (cb c h e))) <= budget c /\
      (exists ext, nodes (snd (fst (cb c h e))) = nodes h ++ ext /\
                   length ext <= gn * spent c h e) /\
      (forall w, length (adj_of (snd (fst (cb c h e))) d w)
                 <= length (adj_of h d w) + g * spent c h e).
End Hyps.

(* ------------------------------------------------------------------ *)
(* 1. edge loop                                                        *)
(* ------------------------------------------------------------------ *)
Section LoopTermB.
  Variables K V E : Type.
  Notation heap := (heap K V E).
  Notation edge := (edge E).
  Variable CB : Type.
  Variable cb : CB -> heap -> edge -> CB * heap * bool.
  Variable budget : CB -> nat.

  Lemma edge_loop_terminates_budget_ d u g : LoopBudget cb budget d u g ->
    forall fuel c h pos, length (adj_of h d u) - pos + g * budget c < fuel ->
      snd (edge_loop cb fuel d c h u pos) = true.
  Proof.
    intros Hle. induction fuel as [|f IH]; intros c h pos Hf; [lia|]. cbn [edge_loop].
    destruct (iter_edge h d u pos) as [e|] eqn:He; [|reflexivity].
    destruct (iter_edge_some _ _ _ _ He) as (_ & _ & Hpos).
    destruct (Hle c h e) as [Hb Hl]. unfold spent in Hl.
    destruct (cb c h e) as [[c1 h1] ok]. cbn [fst snd] in Hb, Hl. apply IH.
    pose proof (budget_pay g Hb) as Hp. lia.
  Qed.
End LoopTermB.

(* ------------------------------------------------------------------ *)
(* 2. sums over iota                                                   *)
(* ------------------------------------------------------------------ *)
Section SumMore.
  Lemma iota_app : forall n a m, iota a (n + m) = iota a n ++ iota (a + n) m.
  Proof.
    induction n as [|n IH]; intros a m; cbn [iota Nat.add app].
    - now rewrite Nat.add_0_r.
    - rewrite IH. now rewrite Nat.add_succ_r.
  Qed.

  Lemma sum_app (f : nat -> nat) : forall l1 l2,
    fold_right (fun u acc => f u + acc) 0 (l1 ++ l2)
    = fold_right (fun u acc => f u + acc) 0 l1 + fold_right (fun u acc => f u + acc) 0 l2.
  Proof. induction l1 as [|w r IH]; intros l2; cbn [app fold_right]; [reflexivity|]. rewrite IH. lia. Qed.

  Lemma sum_zero (f : nat -> nat) : forall l, (forall w, In w l -> f w = 0) ->
    fold_right (fun u acc => f u + acc) 0 l = 0.
  Proof.
    induction l as [|w r IH]; intros H; cbn [fold_right]; [reflexivity|].
    rewrite (H w (or_introl eq_refl)), IH; [reflexivity|]. intros v Hv. apply H. now right.
  Qed.

  Lemma sum_Sx (f : nat -> nat) x : forall l,
    fold_right (fun u acc => S (f u + x) + acc) 0 l
    = length l + fold_right (fun u acc => f u + acc) 0 l + length l * x.
  Proof. induction l as [|w r IH]; cbn [fold_right length]; [reflexivity|]. rewrite IH. lia. Qed.
End SumMore.

(* ------------------------------------------------------------------ *)
(* 3. the traversal machines under a growth budget                     *)
(* ------------------------------------------------------------------ *)
Section TermB.
  Variables K V E : Type.
  Variable keqb : K -> K -> bool.
  Hypothesis Hk : KeqbSpec keqb.
  Notation heap := (heap K V E).
  Notation edge := (edge E).
  Variable CB : Type.
  Variable cb : CB -> heap -> edge -> CB * heap * bool.
  Variable budget : CB -> nat.
  Variable d : dir.
  Variables gn g : nat.
  Hypothesis Hcb : TravBudget cb budget d gn g.
  (* N: bound on the number of allocations there will ever be;
     bnd: strict bound on the length each walked list will ever have; wt: weight of an unvisited node *)
  Variable N : nat.
  Variables bnd wt : nat -> nat.
  Hypothesis Hbw : forall w, bnd w <= wt w.
  Hypothesis Hw1 : forall w, 1 <= wt w.

  (* what is there plus what the remaining budget can still buy stays below the static bounds *)
  Definition GoodB (st : sst K V E CB) : Prop :=
    size (s_heap st) + gn * budget (s_cb st) <= N /\
    forall w, length (adj_of (s_heap st) d w) + g * budget (s_cb st) < bnd w.

  (* weight of id w: 0 once its key is visited; a not-yet-allocated id counts as unvisited *)
  Definition uw (ns : list (K * V)) (vis : list K) (w : nat) : nat :=
    match nth_error ns w with
    | Some p => if memb keqb (fst p) vis then 0 else wt w
    | None => wt w
    end.
  Definition unvB (ns : list (K * V)) (vis : list K) : nat :=
    fold_right (fun w acc => uw ns vis w + acc) 0 (iota 0 N).
  Definition MB (st : sst K V E CB) : nat := unvB (nodes (s_heap st)) (s_vis st).

  Lemma uw_le_wt ns vis w : uw ns vis w <= wt w.
  Proof.
    unfold uw. destruct (nth_error ns w) as [p|]; [|lia]. destruct (memb keqb (fst p) vis); lia.
  Qed.

  Lemma uw_app ns ext vis w : uw (ns ++ ext) vis w <= uw ns vis w.
  Proof.
    destruct (nth_error ns w) as [p|] eqn:Hn.
    - unfold uw. rewrite nth_error_app1; [rewrite Hn; lia|]. apply nth_error_Some. congruence.
    - unfold uw at 2. rewrite Hn. apply uw_le_wt.
  Qed.

  Lemma uw_cons ns k vis w : uw ns (k :: vis) w <= uw ns vis w.
  Proof.
    unfold uw. destruct (nth_error ns w) as [p|]; [|lia]. cbn [memb].
    destruct (keqb k (fst p)); destruct (memb keqb (fst p) vis); lia.
  Qed.

  Lemma uw_mark ns k vis v p : nth_error ns v = Some p -> fst p = k -> memb keqb k vis = false ->
    uw ns (k :: vis) v + wt v <= uw ns vis v.
  Proof.
    intros Hn <- Hm. unfold uw. rewrite Hn, Hm. cbn [memb].
    assert (Hr : keqb (fst p) (fst p) = true) by (apply Hk; reflexivity). rewrite Hr. lia.
  Qed.

  Lemma unvB_app ns ext vis : unvB (ns ++ ext) vis <= unvB ns vis.
  Proof. unfold unvB. apply (sum_le (uw (ns ++ ext) vis) (uw ns vis)). intros w. apply uw_app. Qed.

  Lemma unvl_mark ns k vis v p : nth_error ns v = Some p -> fst p = k -> memb keqb k vis = false ->
    forall l, In v l ->
      fold_right (fun w acc => uw ns (k :: vis) w + acc) 0 l + wt v
      <= fold_right (fun w acc => uw ns vis w + acc) 0 l.
  Proof.
    intros Hn Hp Hm. induction l as [|w r IH]; intros Hin; [contradiction|]. cbn [fold_right].
    pose proof (sum_le (uw ns (k :: vis)) (uw ns vis) (fun x => uw_cons ns k vis x) r) as Hr.
    destruct Hin as [->|Hin].
    - pose proof (@uw_mark ns k vis v p Hn Hp Hm) as Hv. lia.
    - specialize (IH Hin). pose proof (uw_cons ns k vis w) as Hw. lia.
  Qed.

  Lemma unvB_mark ns k vis v p : nth_error ns v = Some p -> fst p = k -> memb keqb k vis = false ->
    v < N -> unvB ns (k :: vis) + wt v <= unvB ns vis.
  Proof.
    intros Hn Hp Hm Hv. unfold unvB. apply (@unvl_mark ns k vis v p Hn Hp Hm). apply in_iota. lia.
  Qed.

  Lemma unvB_le_sum ns vis : unvB ns vis <= fold_right (fun w acc => wt w + acc) 0 (iota 0 N).
  Proof. unfold unvB. apply (sum_le (uw ns vis) wt). intros w. apply uw_le_wt. Qed.

  Lemma in_vis_false (h : heap) vis v : in_vis keqb h vis v = false ->
    exists p, nth_error (nodes h) v = Some p /\ memb keqb (fst p) vis = false /\
              mark h vis v = fst p :: vis.
  Proof.
    unfold in_vis, mark, keyof. destruct (nth_error (nodes h) v) as [p|]; cbn [option_map]; [|discriminate].
    intros H. exists p. split; [reflexivity|]. split; [exact H|reflexivity].
  Qed.

  Lemma call_cb_goodB st e : GoodB st ->
    GoodB (fst (call_cb cb st e)) /\ s_vis (fst (call_cb cb st e)) = s_vis st /\
    MB (fst (call_cb cb st e)) <= MB st.
  Proof.
    intros [Hn Hl]. unfold call_cb, MB.
    destruct (Hcb (s_cb st) (s_heap st) e) as (Hb & (ext & Hne & Hext) & Hg). unfold spent in Hext, Hg.
    destruct (cb (s_cb st) (s_heap st) e) as [[c1 h1] ok]. unfold GoodB.
    cbn [fst snd s_heap s_cb s_vis] in *.
    pose proof (budget_pay gn Hb) as Hp1. pose proof (budget_pay g Hb) as Hp2.
    split; [split|split; [reflexivity|]].
    - unfold size in *. rewrite Hne, app_length. lia.
    - intros w. specialize (Hl w). specialize (Hg w). lia.
    - rewrite Hne. apply unvB_app.
  Qed.

  Lemma discover_goodB st v eo : GoodB st -> in_vis keqb (s_heap st) (s_vis st) v = false ->
    GoodB (discover st v eo) /\ MB (discover st v eo) + wt v <= MB st.
  Proof.
    intros [Hn Hl] Hv. split; [split; assumption|].
    destruct (in_vis_false _ _ _ Hv) as (p & Hp & Hm & Hmk).
    unfold MB. cbn [discover s_vis s_heap]. rewrite Hmk.
    apply (@unvB_mark _ _ _ _ _ Hp eq_refl Hm).
    assert (Hlt : v < length (nodes (s_heap st))) by (apply nth_error_Some; congruence).
    unfold size in Hn. lia.
  Qed.

  Lemma descend_termB target post : forall fuel st u pos,
    GoodB st -> S (bnd u - pos + MB st) <= fuel ->
    snd (descend keqb cb d target post fuel st u pos) <> OutOfFuel /\
    GoodB (fst (descend keqb cb d target post fuel st u pos)) /\
    MB (fst (descend keqb cb d target post fuel st u pos)) <= MB st.
  Proof.
    induction fuel as [|f IH]; intros st u pos HG Hf; [lia|]. cbn [descend].
    destruct (edge_at (s_heap st) d u pos) as [e|] eqn:He.
    2:{ cbn [fst snd]. split; [discriminate|]. split; [exact HG|lia]. }
    destruct (edge_at_some _ _ _ _ He) as (_ & _ & Hpos).
    pose proof (proj2 HG u) as Hbu.
    destruct (@call_cb_goodB st e HG) as (HG1 & Hv1 & HM1).
    destruct (call_cb cb st e) as [st1 ok]. cbn [fst] in HG1, Hv1, HM1.
    destruct (ok && negb (in_vis keqb (s_heap st1) (s_vis st1) (edst e))) eqn:Hb.
    - apply andb_true_iff in Hb. destruct Hb as [_ Hb]. apply negb_true_iff in Hb.
      set (st2 := discover st1 (edst e) (if post then None else Some e)).
      destruct (@discover_goodB st1 (edst e) (if post then None else Some e) HG1 Hb) as [HG2 Hu2].
      fold st2 in HG2, Hu2.
      pose proof (Hbw (edst e)) as Hbe.
      destruct (is_target keqb (s_heap st2) target (edst e)).
      + cbn [fst snd]. split; [discriminate|]. split; [exact HG2|lia].
      + destruct (IH st2 (edst e) 0 HG2) as (Hr3 & HG3 & Hu3); [lia|].
        destruct (descend keqb cb d target post f st2 (edst e) 0) as [st3 r].
        cbn [fst snd] in Hr3, HG3, Hu3.
        destruct r; cbn [fst snd].
        * split; [discriminate|]. split; [exact HG3|lia].
        * assert (HG3' : GoodB (if post then push_tree st3 e else st3)) by (destruct post; exact HG3).
          assert (Hv3' : MB (if post then push_tree st3 e else st3) = MB st3)
            by (destruct post; reflexivity).
          destruct (IH _ u (S pos) HG3') as (Hr4 & HG4 & Hu4); [rewrite Hv3'; lia|].
          rewrite Hv3' in Hu4. split; [exact Hr4|]. split; [exact HG4|lia].
        * congruence.
    - destruct (IH st1 u (S pos) HG1) as (Hr4 & HG4 & Hu4); [lia|].
      split; [exact Hr4|]. split; [exact HG4|lia].
  Qed.

  Section WLB.
    Variable Q : Type.
    Variable qpush : Q -> nat -> Q.
    Variable qpop : Q -> option (nat * Q).
    Variable qlen : Q -> nat.
    Hypothesis Hpush : forall q x, qlen (qpush q x) = S (qlen q).
    Hypothesis Hpop : forall q x q', qpop q = Some (x, q') -> qlen q = S (qlen q').
    Variable target : option K.

    Lemma wl_scan_termB : forall fuel st q u pos,
      GoodB st -> bnd u - pos < fuel ->
      snd (wl_scan keqb cb qpush d target fuel st q u pos) <> OutOfFuel /\
      GoodB (fst (fst (wl_scan keqb cb qpush d target fuel st q u pos))) /\
      qlen (snd (fst (wl_scan keqb cb qpush d target fuel st q u pos))) +
        MB (fst (fst (wl_scan keqb cb qpush d target fuel st q u pos)))
        <= qlen q + MB st.
    Proof.
      induction fuel as [|f IH]; intros st q u pos HG Hf; [lia|]. cbn [wl_scan].
      destruct (edge_at (s_heap st) d u pos) as [e|] eqn:He.
      2:{ cbn [fst snd]. split; [discriminate|]. split; [exact HG|lia]. }
      destruct (edge_at_some _ _ _ _ He) as (_ & _ & Hpos).
      pose proof (proj2 HG u) as Hbu.
      destruct (@call_cb_goodB st e HG) as (HG1 & Hv1 & HM1).
      destruct (call_cb cb st e) as [st1 ok]. cbn [fst] in HG1, Hv1, HM1.
      destruct (ok && negb (in_vis keqb (s_heap st1) (s_vis st1) (edst e))) eqn:Hb.
      - apply andb_true_iff in Hb. destruct Hb as [_ Hb]. apply negb_true_iff in Hb.
        set (st2 := discover st1 (edst e) (Some e)).
        destruct (@discover_goodB st1 (edst e) (Some e) HG1 Hb) as [HG2 Hu2].
        fold st2 in HG2, Hu2.
        pose proof (Hw1 (edst e)) as Hwe.
        destruct (is_target keqb (s_heap st2) target (edst e)).
        + cbn [fst snd]. split; [discriminate|]. split; [exact HG2|lia].
        + destruct (IH st2 (qpush q (edst e)) u (S pos) HG2) as (Hr & HG' & Hu'); [lia|].
          rewrite Hpush in Hu'. split; [exact Hr|]. split; [exact HG'|lia].
      - destruct (IH st1 q u (S pos) HG1) as (Hr & HG' & Hu'); [lia|].
        split; [exact Hr|]. split; [exact HG'|lia].
    Qed.

    Variable B : nat.
    Hypothesis HB : forall w, bnd w <= B.

    Lemma wl_loop_termB : forall fuel st q,
      GoodB st -> qlen q + MB st + B < fuel ->
      snd (wl_loop keqb cb qpush qpop d target fuel st q) <> OutOfFuel.
    Proof.
      induction fuel as [|f IH]; intros st q HG Hf; [lia|]. cbn [wl_loop].
      destruct (qpop q) as [[u q']|] eqn:Hq; [|cbn [snd]; discriminate].
      pose proof (@Hpop _ _ _ Hq) as Hql. pose proof (HB u) as HBu.
      destruct (@wl_scan_termB (S f) st q' u 0 HG) as (Hr & HG1 & Hu1); [lia|].
      destruct (wl_scan keqb cb qpush d target (S f) st q' u 0) as [[st1 q1] r].
      cbn [fst snd] in Hr, HG1, Hu1.
      destruct r; cbn [snd]; try discriminate; try congruence.
      apply IH; [exact HG1|lia].
    Qed.
  End WLB.
End TermB.

(* ------------------------------------------------------------------ *)
(* 4. explicit fuel                                                    *)
(* ------------------------------------------------------------------ *)
Section TermFinalB.
  Variables K V E : Type.
  Variable keqb : K -> K -> bool.
  Hypothesis Hk : KeqbSpec keqb.
  Notation heap := (heap K V E).
  Notation edge := (edge E).
  Variable CB : Type.
  Variable cb : CB -> heap -> edge -> CB * heap * bool.
  Variable budget : CB -> nat.
  Variable d : dir.
  Variables gn g : nat.
  Hypothesis Hcb : TravBudget cb budget d gn g.

  (* the lists of ids at or beyond [size h] are empty in a well-formed heap *)
  Lemma sum_adj_wf (h : heap) m : Wf h ->
    fold_right (fun w acc => length (adj_of h d w) + acc) 0 (iota 0 (size h + m)) <= total h.
  Proof.
    intros (Hwf & _ & _). rewrite iota_app, sum_app. cbn [Nat.add].
    rewrite (sum_zero (fun w => length (adj_of h d w)) (iota (size h) m)).
    - rewrite Nat.add_0_r. unfold total.
      apply (sum_le (fun w => length (adj_of h d w)) (fun w => length (outs h w) + length (ins h w))).
      intros w. apply adj_len_le_oi.
    - intros w Hw. apply in_iota in Hw. destruct (Hwf w) as [Ho Hi]; [lia|].
      pose proof (adj_len_le_oi h d w) as Hl. rewrite Ho, Hi in Hl. cbn [length] in Hl. lia.
  Qed.

  Lemma descend_terminatesB target post fuel h c root b : Wf h ->
    fuel_bound h + gn * budget c + g * budget c * S (size h + gn * budget c) <= fuel ->
    snd (descend keqb cb d target post fuel (init_st h c root b) root 0) <> OutOfFuel.
  Proof.
    intros Hwf Hfuel.
    pose (x := g * budget c). pose (y := gn * budget c).
    pose (w := fun v => S (length (adj_of h d v) + x)).
    destruct (@descend_termB K V E keqb Hk CB cb budget d gn g Hcb (size h + y) w w
                (fun v => le_n _) target post fuel (init_st h c root b) root 0) as (Hr & _ & _).
    - split; cbn [init_st s_heap s_cb].
      + unfold y. lia.
      + intros v. unfold w, x. lia.
    - pose proof (unvB_le_sum keqb (size h + y) w (nodes (s_heap (init_st h c root b)))
                    (s_vis (init_st h c root b))) as Hu.
      unfold w in Hu at 2. rewrite sum_Sx, iota_length in Hu.
      pose proof (sum_adj_wf y Hwf) as Hs.
      pose proof (adj_len_le_total d root Hwf) as Hroot.
      pose proof (fuel_bound_ge h) as Hfb.
      unfold MB. unfold w at 1.
      fold x y in Hfuel.
      revert Hu Hs Hroot Hfb Hfuel.
      generalize (unvB keqb (size h + y) w (nodes (s_heap (init_st h c root b))) (s_vis (init_st h c root b))).
      generalize (fold_right (fun u acc => length (adj_of h d u) + acc) 0 (iota 0 (size h + y))).
      generalize (length (adj_of h d root)) (total h) (fuel_bound h) (size h). clearbody x y.
      intros lr tot fb sz sm mu Hu Hs Hroot Hfb Hfuel. nia.
    - exact Hr.
  Qed.

  Lemma wl_loop_terminatesB Q (qpush : Q -> nat -> Q) qpop (qlen : Q -> nat) target fuel h c root b q :
    (forall q x, qlen (qpush q x) = S (qlen q)) ->
    (forall q x q', qpop q = Some (x, q') -> qlen q = S (qlen q')) ->
    qlen q = 1 ->
    Wf h ->
    fuel_bound h + gn * budget c + g * budget c * S (size h + gn * budget c) <= fuel ->
    snd (wl_loop keqb cb qpush qpop d target fuel (init_st h c root b) q) <> OutOfFuel.
  Proof.
    intros Hpush Hpop Hq Hwf Hfuel.
    pose (x := g * budget c). pose (y := gn * budget c).
    apply (@wl_loop_termB K V E keqb Hk CB cb budget d gn g Hcb (size h + y)
             (fun _ => S (total h + x)) (fun _ => 1)
             (fun _ => le_n _) Q qpush qpop qlen Hpush Hpop target (S (total h + x)) (fun _ => le_n _)).
    - split; cbn [init_st s_heap s_cb].
      + unfold y. lia.
      + intros v. pose proof (adj_len_le_total d v Hwf). unfold x. lia.
    - pose proof (unvB_le_sum keqb (size h + y) (fun _ => 1) (nodes (s_heap (init_st h c root b)))
                    (s_vis (init_st h c root b))) as Hu.
      rewrite sum_const1, iota_length in Hu.
      pose proof (fuel_bound_ge h) as Hfb. unfold MB.
      fold x y in Hfuel. revert Hu Hfb Hfuel.
      generalize (unvB keqb (size h + y) (fun _ => 1) (nodes (s_heap (init_st h c root b)))
                    (s_vis (init_st h c root b))).
      generalize (total h) (fuel_bound h) (size h). clearbody x y.
      intros tot fb sz mu Hu Hfb Hfuel. nia.
  Qed.
End TermFinalB.

(* ================================================================== *)
(* FINAL THEOREMS                                                      *)
(* ================================================================== *)
Section FinalB.
  Variables K V E : Type.
  Variable keqb : K -> K -> bool.
  Notation heap := (heap K V E).
  Notation edge := (edge E).
  Variable CB : Type.
  Variable cb : CB -> heap -> edge -> CB * heap * bool.

  (* ---- 1. an edge loop terminates once the body stops lengthening the walked list ---- *)
  Theorem edge_loop_terminates_budget : forall (d : dir) (u : nat) (budget : CB -> nat) (g : nat),
    (forall c h e,
       budget (fst (fst (cb c h e))) <= budget c /\
       length (adj_of (snd (fst (cb c h e))) d u)
       <= length (adj_of h d u) + g * (budget c - budget (fst (fst (cb c h e))))) ->
    forall fuel c h pos, length (adj_of h d u) - pos + g * budget c < fuel ->
      snd (edge_loop cb fuel d c h u pos) = true.
  Proof. intros d u budget g H. exact (edge_loop_terminates_budget_ H). Qed.

  (* ---- 2. a search terminates once the closure stops adding edges and nodes ---- *)
  Theorem traversal_terminates_budget : KeqbSpec keqb ->
    forall (d : dir) (budget : CB -> nat) (gn g : nat),
    (forall c h e,
       budget (fst (fst (cb c h e))) <= budget c /\
       (exists ext, nodes (snd (fst (cb c h e))) = nodes h ++ ext /\
                    length ext <= gn * (budget c - budget (fst (fst (cb c h e))))) /\
       (forall w, length (adj_of (snd (fst (cb c h e))) d w)
                  <= length (adj_of h d w) + g * (budget c - budget (fst (fst (cb c h e)))))) ->
    forall vleb k fuel h c root target cyc, Wf h ->
      fuel_bound h + gn * budget c + g * budget c * S (size h + gn * budget c) <= fuel ->
      snd (run_search keqb cb vleb k d fuel h c root target cyc) <> OutOfFuel.
  Proof.
    intros Hk d budget gn g Hcb vleb k fuel h c root target cyc Hwf Hfuel.
    assert (Hcb' : TravBudget cb budget d gn g) by exact Hcb.
    unfold run_search. destruct k.
    - apply (wl_loop_terminatesB Hk Hcb' (@fifo_push) (@fifo_pop) (@length nat));
        try assumption; try reflexivity.
      + intros q x. unfold fifo_push. rewrite app_length. cbn [length]. lia.
      + intros q x q' Hq. destruct q as [|y r]; [discriminate|]. cbn [fifo_pop] in Hq.
        injection Hq as _ <-. reflexivity.
    - apply (descend_terminatesB Hk Hcb'); assumption.
    - apply (wl_loop_terminatesB Hk Hcb' (heap_push (pq_le vleb h false))
               (heap_pop (pq_le vleb h false)) (@length nat));
        try assumption; try reflexivity.
      + intros q x. apply heap_push_length.
      + intros q x q'. apply heap_pop_length.
    - apply (wl_loop_terminatesB Hk Hcb' (heap_push (pq_le vleb h true))
               (heap_pop (pq_le vleb h true)) (@length nat));
        try assumption; try reflexivity.
      + intros q x. apply heap_push_length.
      + intros q x q'. apply heap_pop_length.
  Qed.

  (* ---- 3. same for orderings ---- *)
  Theorem order_terminates_budget : KeqbSpec keqb ->
    forall (d : dir) (budget : CB -> nat) (gn g : nat),
    (forall c h e,
       budget (fst (fst (cb c h e))) <= budget c /\
       (exists ext, nodes (snd (fst (cb c h e))) = nodes h ++ ext /\
                    length ext <= gn * (budget c - budget (fst (fst (cb c h e))))) /\
       (forall w, length (adj_of (snd (fst (cb c h e))) d w)
                  <= length (adj_of h d w) + g * (budget c - budget (fst (fst (cb c h e)))))) ->
    forall post fuel h c root, Wf h ->
      fuel_bound h + gn * budget c + g * budget c * S (size h + gn * budget c) <= fuel ->
      snd (order_edges keqb cb d post fuel h c root) <> None.
  Proof.
    intros Hk d budget gn g Hcb post fuel h c root Hwf Hfuel.
    assert (Hcb' : TravBudget cb budget d gn g) by exact Hcb.
    unfold order_edges.
    pose proof (@descend_terminatesB K V E keqb Hk CB cb budget d gn g Hcb' None post fuel h c root
                  true Hwf Hfuel) as H.
    destruct (descend keqb cb d None post fuel (init_st h c root true) root 0) as [st r].
    cbn [snd] in H. destruct r; cbn [snd]; try discriminate. congruence.
  Qed.

  (* ---- 2'/3'. the node table is left alone (gn = 0): fuel_bound h + g * budget c * S (size h) ---- *)
  Theorem traversal_terminates_budget_edges : KeqbSpec keqb ->
    forall (d : dir) (budget : CB -> nat) (g : nat),
    (forall c h e,
       budget (fst (fst (cb c h e))) <= budget c /\
       nodes (snd (fst (cb c h e))) = nodes h /\
       (forall w, length (adj_of (snd (fst (cb c h e))) d w)
                  <= length (adj_of h d w) + g * (budget c - budget (fst (fst (cb c h e)))))) ->
    forall vleb k fuel h c root target cyc, Wf h ->
      fuel_bound h + g * budget c * S (size h) <= fuel ->
      snd (run_search keqb cb vleb k d fuel h c root target cyc) <> OutOfFuel.
  Proof.
    intros Hk d budget g Hcb vleb k fuel h c root target cyc Hwf Hfuel.
    apply (@traversal_terminates_budget Hk d budget 0 g); [|exact Hwf|].
    - intros c0 h0 e. destruct (Hcb c0 h0 e) as (Hb & Hn & Hl). split; [exact Hb|]. split; [|exact Hl].
      exists []. rewrite app_nil_r. split; [exact Hn|]. cbn [length]. lia.
    - cbn [Nat.mul]. rewrite !Nat.add_0_r. exact Hfuel.
  Qed.

  Theorem order_terminates_budget_edges : KeqbSpec keqb ->
    forall (d : dir) (budget : CB -> nat) (g : nat),
    (forall c h e,
       budget (fst (fst (cb c h e))) <= budget c /\
       nodes (snd (fst (cb c h e))) = nodes h /\
       (forall w, length (adj_of (snd (fst (cb c h e))) d w)
                  <= length (adj_of h d w) + g * (budget c - budget (fst (fst (cb c h e)))))) ->
    forall post fuel h c root, Wf h ->
      fuel_bound h + g * budget c * S (size h) <= fuel ->
      snd (order_edges keqb cb d post fuel h c root) <> None.
  Proof.
    intros Hk d budget g Hcb post fuel h c root Hwf Hfuel.
    apply (@order_terminates_budget Hk d budget 0 g); [|exact Hwf|].
    - intros c0 h0 e. destruct (Hcb c0 h0 e) as (Hb & Hn & Hl). split; [exact Hb|]. split; [|exact Hl].
      exists []. rewrite app_nil_r. split; [exact Hn|]. cbn [length]. lia.
    - cbn [Nat.mul]. rewrite !Nat.add_0_r. exact Hfuel.
  Qed.

  (* ---- the theorems of MutationProof.v (statements verbatim) as the instance budget := fun _ => 0 ---- *)
  Corollary edge_loop_terminates_from_budget : forall d u,
    (forall c h e, length (adj_of (snd (fst (cb c h e))) d u) <= length (adj_of h d u)) ->
    forall fuel c h pos, length (adj_of h d u) - pos < fuel ->
      snd (edge_loop cb fuel d c h u pos) = true.
  Proof.
    intros d u Hle fuel c h pos Hf.
    apply (@edge_loop_terminates_budget d u (fun _ => 0) 0).
    - intros c0 h0 e. split; [lia|]. specialize (Hle c0 h0 e). lia.
    - lia.
  Qed.

  Corollary traversal_terminates_from_budget : KeqbSpec keqb ->
    (forall c h e w,
       nodes (snd (fst (cb c h e))) = nodes h /\
       length (outs (snd (fst (cb c h e))) w) <= length (outs h w) /\
       length (ins (snd (fst (cb c h e))) w) <= length (ins h w)) ->
    forall vleb k d fuel h c root target cyc, Wf h -> fuel_bound h <= fuel ->
      snd (run_search keqb cb vleb k d fuel h c root target cyc) <> OutOfFuel.
  Proof.
    intros Hk Hcb vleb k d fuel h c root target cyc Hwf Hfuel.
    apply (@traversal_terminates_budget_edges Hk d (fun _ => 0) 0); [|exact Hwf|lia].
    intros c0 h0 e. split; [lia|]. split; [exact (proj1 (Hcb c0 h0 e 0))|].
    intros w. destruct (Hcb c0 h0 e w) as (_ & Ho & Hi).
    pose proof (adj_len_mono d h0 (snd (fst (cb c0 h0 e))) w Ho Hi) as Hl. lia.
  Qed.

  Corollary order_terminates_from_budget : KeqbSpec keqb ->
    (forall c h e w,
       nodes (snd (fst (cb c h e))) = nodes h /\
       length (outs (snd (fst (cb c h e))) w) <= length (outs h w) /\
       length (ins (snd (fst (cb c h e))) w) <= length (ins h w)) ->
    forall d post fuel h c root, Wf h -> fuel_bound h <= fuel ->
      snd (order_edges keqb cb d post fuel h c root) <> None.
  Proof.
    intros Hk Hcb d post fuel h c root Hwf Hfuel.
    apply (@order_terminates_budget_edges Hk d (fun _ => 0) 0); [|exact Hwf|lia].
    intros c0 h0 e. split; [lia|]. split; [exact (proj1 (Hcb c0 h0 e 0))|].
    intros w. destruct (Hcb c0 h0 e w) as (_ & Ho & Hi).
    pose proof (adj_len_mono d h0 (snd (fst (cb c0 h0 e))) w Ho Hi) as Hl. lia.
  Qed.
End FinalB.

(* the corollaries have literally the types of the theorems of MutationProof.v *)
Lemma subsumes_edge_loop_terminates : ltac:(let t := type of @edge_loop_terminates in exact t).
Proof. exact @edge_loop_terminates_from_budget. Qed.
Lemma subsumes_traversal_terminates : ltac:(let t := type of @traversal_terminates in exact t).
Proof. exact @traversal_terminates_from_budget. Qed.
Lemma subsumes_order_terminates : ltac:(let t := type of @order_terminates in exact t).
Proof. exact @order_terminates_from_budget. Qed.

(* ================================================================== *)
(* NON-VACUITY: closures that grow the graph on their first two        *)
(* invocations and then stop                                           *)
(* ================================================================== *)
Section Examples.
  Variables K V E : Type.
  Notation heap := (heap K V E).
  Notation edge := (edge E).

  Lemma connect_adj_len (h : heap) u v x d w :
    length (adj_of (connect h u v x) d w) <= length (adj_of h d w) + 2.
  Proof.
    unfold connect, set_outs, set_ins. cbn [outs ins nodes]. unfold upd.
    destruct d; cbn [adj_of outs ins];
      destruct (Nat.eqb_spec w u) as [Hu|Hu]; destruct (Nat.eqb_spec w v) as [Hv|Hv];
      try subst u; try subst v; rewrite ?app_length; cbn [length]; lia.
  Qed.

  (* state = number of invocations that will still add an edge: the first [c] invocations duplicate
     the edge they are handed (a parallel edge source -> target), later ones do nothing *)
  Definition add_first (c : nat) (h : heap) (e : edge) : nat * heap * bool :=
    match c with
    | 0 => (0, h, true)
    | S c' => (c', connect h (esrc e) (edst e) (eval e), true)
    end.

  (* it meets the hypotheses of the budget theorems with budget := the counter, g := 2, gn := 0 *)
  Example add_first_budget : forall d c (h : heap) e,
    fst (fst (add_first c h e)) <= c /\
    nodes (snd (fst (add_first c h e))) = nodes h /\
    (forall w, length (adj_of (snd (fst (add_first c h e))) d w)
               <= length (adj_of h d w) + 2 * (c - fst (fst (add_first c h e)))).
  Proof.
    intros d c h e. destruct c as [|c']; cbn [add_first fst snd].
    - split; [lia|]. split; [reflexivity|]. intros w. lia.
    - split; [lia|]. split; [reflexivity|]. intros w.
      pose proof (connect_adj_len h (esrc e) (edst e) (eval e) d w) as Hl.
      replace (S c' - c') with 1 by lia. lia.
  Qed.

  (* ... but NOT the hypothesis of the old theorems: it really lengthens a list *)
  Example add_first_grows : forall (h : heap) e,
    length (outs (snd (fst (add_first 2 h e))) (esrc e)) = S (length (outs h (esrc e))).
  Proof.
    intros h e. cbn [add_first fst snd]. unfold connect, set_outs, set_ins. cbn [outs ins nodes].
    unfold upd. rewrite Nat.eqb_refl, app_length. cbn [length]. lia.
  Qed.

  (* so every loop / search / ordering run with it (adding on its first 2 invocations) terminates *)
  Example add_first_edge_loop : forall d u fuel (h : heap) pos,
    length (adj_of h d u) - pos + 2 * 2 < fuel -> snd (edge_loop add_first fuel d 2 h u pos) = true.
  Proof.
    intros d u fuel h pos Hf.
    apply (@edge_loop_terminates_budget K V E nat add_first d u (fun c => c) 2); [|exact Hf].
    intros c h0 e. destruct (add_first_budget d c h0 e) as (Hb & _ & Hl). split; [exact Hb|apply Hl].
  Qed.

  Example add_first_search : forall keqb, KeqbSpec keqb ->
    forall vleb k d fuel (h : heap) root target cyc, Wf h ->
      fuel_bound h + 2 * 2 * S (size h) <= fuel ->
      snd (run_search keqb add_first vleb k d fuel h 2 root target cyc) <> OutOfFuel.
  Proof.
    intros keqb Hk vleb k d fuel h root target cyc Hwf Hf.
    apply (@traversal_terminates_budget_edges K V E keqb nat add_first Hk d (fun c => c) 2);
      [|exact Hwf|exact Hf].
    intros c h0 e. apply add_first_budget.
  Qed.

  Example add_first_order : forall keqb, KeqbSpec keqb ->
    forall d post fuel (h : heap) root, Wf h ->
      fuel_bound h + 2 * 2 * S (size h) <= fuel ->
      snd (order_edges keqb add_first d post fuel h 2 root) <> None.
  Proof.
    intros keqb Hk d post fuel h root Hwf Hf.
    apply (@order_terminates_budget_edges K V E keqb nat add_first Hk d (fun c => c) 2);
      [|exact Hwf|exact Hf].
    intros c h0 e. apply add_first_budget.
  Qed.
End Examples.

(* a closure that also ALLOCATES: on each of its first [c] invocations it creates a node and connects
   the current source to it *)
Definition grow_first (c : nat) (h : heap nat nat nat) (e : edge nat) : nat * heap nat nat nat * bool :=
  match c with
  | 0 => (0, h, true)
  | S c' => (c', connect (alloc h (1000 + c') 0) (esrc e) (size h) (eval e), true)
  end.

Example grow_first_budget : forall d c (h : heap nat nat nat) e,
  fst (fst (grow_first c h e)) <= c /\
  (exists ext, nodes (snd (fst (grow_first c h e))) = nodes h ++ ext /\
               length ext <= 1 * (c - fst (fst (grow_first c h e)))) /\
  (forall w, length (adj_of (snd (fst (grow_first c h e))) d w)
             <= length (adj_of h d w) + 2 * (c - fst (fst (grow_first c h e)))).
Proof.
  intros d c h e. destruct c as [|c']; cbn [grow_first fst snd].
  - split; [lia|]. split; [exists []; rewrite app_nil_r; split; [reflexivity|cbn [length]; lia]|].
    intros w. lia.
  - split; [lia|]. replace (S c' - c') with 1 by lia. split.
    + exists [(1000 + c', 0)]. split; [reflexivity|]. cbn [length]. lia.
    + intros w.
      pose proof (connect_adj_len (alloc h (1000 + c') 0) (esrc e) (size h) (eval e) d w) as Hl.
      assert (Ha : adj_of (alloc h (1000 + c') 0) d w = adj_of h d w) by (destruct d; reflexivity).
      rewrite Ha in Hl. lia.
Qed.

Lemma nat_keqb_spec : KeqbSpec Nat.eqb.
Proof. intros a b. apply Nat.eqb_eq. Qed.

Example grow_first_search : forall vleb k d fuel (h : heap nat nat nat) root target cyc, Wf h ->
  fuel_bound h + 1 * 2 + 2 * 2 * S (size h + 1 * 2) <= fuel ->
  snd (run_search Nat.eqb grow_first vleb k d fuel h 2 root target cyc) <> OutOfFuel.
Proof.
  intros vleb k d fuel h root target cyc Hwf Hf.
  apply (@traversal_terminates_budget nat nat nat Nat.eqb nat grow_first nat_keqb_spec d (fun c => c) 1 2);
    [|exact Hwf|exact Hf].
  intros c h0 e. apply grow_first_budget.
Qed.

(* concrete runs on the two-cycle 0 <-> 1 (keys 10, 11), with exactly the fuel of the theorems *)
Definition h2 : heap nat nat nat :=
  mkHeap [(10, 0); (11, 0)]
         (fun u => match u with 0 => [(1, 5)] | 1 => [(0, 6)] | _ => [] end)
         (fun u => match u with 0 => [(1, 6)] | 1 => [(0, 5)] | _ => [] end).

Definition degs (h : heap nat nat nat) : list (nat * nat) :=
  map (fun u => (length (outs h u), length (ins h u))) (iota 0 (size h)).

(* bfs with add_first 2: ends Exhausted, budget used up, two parallel edges 0->1 were added *)
Example run_add_first_bfs :
  let r := run_search Nat.eqb (@add_first nat nat nat) Nat.leb KBfs DOut
             (fuel_bound h2 + 2 * 2 * S (size h2)) h2 2 0 None false in
  snd r = Exhausted /\ s_cb (fst r) = 0 /\ degs h2 = [(1, 1); (1, 1)] /\
  degs (s_heap (fst r)) = [(3, 1); (1, 3)].
Proof. vm_compute. repeat split; reflexivity. Qed.

(* the edge loop over outs of 0 sees the edges added behind its position: 3 iterations instead of 1 *)
Example run_add_first_loop :
  let r := edge_loop (@add_first nat nat nat) (length (adj_of h2 DOut 0) - 0 + 2 * 2 + 1) DOut 2 h2 0 0 in
  snd r = true /\ fst (fst r) = 0 /\ degs (snd (fst r)) = [(3, 1); (1, 3)].
Proof. vm_compute. repeat split; reflexivity. Qed.

(* dfs ordering with grow_first 2: two nodes allocated and linked during the run *)
Example run_grow_first_order :
  let r := order_edges Nat.eqb grow_first DOut false
             (fuel_bound h2 + 1 * 2 + 2 * 2 * S (size h2 + 1 * 2)) h2 2 0 in
  size (s_heap (fst r)) = 4 /\ s_cb (fst r) = 0 /\
  option_map (map (fun e => (esrc e, edst e))) (snd r) = Some [(0, 1); (1, 3); (0, 2)].
Proof. vm_compute. repeat split; reflexivity. Qed.

Print Assumptions edge_loop_terminates_budget.
Print Assumptions traversal_terminates_budget.
Print Assumptions order_terminates_budget.
Print Assumptions traversal_terminates_budget_edges.
Print Assumptions order_terminates_budget_edges.
Print Assumptions subsumes_edge_loop_terminates.
Print Assumptions subsumes_traversal_terminates.
Print Assumptions subsumes_order_terminates.
Print Assumptions add_first_search.
Print Assumptions grow_first_search.
Print Assumptions run_grow_first_order.
