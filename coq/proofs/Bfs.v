(* Bfs.v — breadth-first search returns shortest paths / shortest cycles. *)
From Gdsl.Model Require Import Base NodeOps Search Callback Spec.
From Gdsl.Proofs Require Import Backtrack Worklist.
From Coq Require Import Lia Permutation.

Set Implicit Arguments.

(* ------------------------------------------------------------------ *)
(* depth of a node in the recorded edge tree *)
Section Level.
  Variable E : Type.
  Notation edstE := (@edst E).

  Fixpoint lvlr (rt : list (edge E)) (v : nat) : nat :=
    match rt with
    | [] => 0
    | e :: r => if Nat.eqb v (edst e) then S (lvlr r (esrc e)) else lvlr r v
    end.
  Definition lvl (tree : list (edge E)) (v : nat) : nat := lvlr (rev tree) v.

  Lemma lvl_snoc_same tree e : lvl (tree ++ [e]) (edst e) = S (lvl tree (esrc e)).
  Proof. unfold lvl. rewrite rev_app_distr. cbn. now rewrite Nat.eqb_refl. Qed.

  Lemma lvl_snoc_other tree e v : v <> edst e -> lvl (tree ++ [e]) v = lvl tree v.
  Proof.
    intros H. unfold lvl. rewrite rev_app_distr. cbn.
    destruct (Nat.eqb_spec v (edst e)); [congruence|reflexivity].
  Qed.

  Lemma lvl_notin : forall tree v, ~ In v (map edstE tree) -> lvl tree v = 0.
  Proof.
    induction tree as [|e tree IH] using rev_ind; intros v Hv; [reflexivity|].
    rewrite map_app, in_app_iff in Hv. cbn [map In] in Hv.
    rewrite lvl_snoc_other by intuition. apply IH. intuition.
  Qed.

  Variables K V : Type.
  Variable h : heap K V E.
  Variable d : dir.
  Variable accept : edge E -> bool.
  Variable root : nat.
  Notation tok := (TreeOK h d accept root).

  Lemma tok_src_in tree e : tok tree -> In e tree -> esrc e = root \/ In (esrc e) (map edstE tree).
  Proof.
    intros [_ [_ Hs]] Hin. apply in_split in Hin. destruct Hin as [t1 [t2 ->]].
    destruct (Hs t1 e t2 eq_refl) as [H|H]; [left; exact H|right].
    rewrite map_app, in_app_iff. left. exact H.
  Qed.

  (* in a tree not entering the root, a tree edge goes down exactly one level *)
  Lemma lvl_tree_edge : forall tree, tok tree -> ~ In root (map edstE tree) ->
    forall e, In e tree -> lvl tree (edst e) = S (lvl tree (esrc e)).
  Proof.
    induction tree as [|e' tree IH] using rev_ind; intros Ht Hr e He; [destruct He|].
    pose proof (tok_prefix _ _ Ht) as Ht'.
    assert (Hr' : ~ In root (map edstE tree)).
    { intros H. apply Hr. rewrite map_app, in_app_iff. left. exact H. }
    assert (Hre : edst e' <> root).
    { intros H. apply Hr. rewrite map_app, in_app_iff. right. left. exact H. }
    assert (Hnd : ~ In (edst e') (map edstE tree)).
    { destruct Ht as [_ [Hn _]]. rewrite map_app in Hn. apply NoDup_app_iff in Hn.
      destruct Hn as [_ [_ Hd]]. intros H. apply (Hd _ H). left. reflexivity. }
    assert (Hsrc : forall e0 : edge E, esrc e0 = root \/ In (esrc e0) (map edstE tree) -> esrc e0 <> edst e').
    { intros e0 [H|H] Heq; [congruence|]. rewrite Heq in H. exact (Hnd H). }
    apply in_app_or in He. destruct He as [He|[<-|[]]].
    - rewrite lvl_snoc_other.
      + rewrite lvl_snoc_other; [now apply IH|]. apply Hsrc. now apply tok_src_in.
      + intros Heq. apply Hnd. rewrite <- Heq. now apply in_map.
    - rewrite lvl_snoc_same. f_equal. symmetry. apply lvl_snoc_other. apply Hsrc.
      destruct Ht as [_ [_ Hs]]. exact (Hs tree e' [] eq_refl).
  Qed.

  Lemma chain_level tree : tok tree -> ~ In root (map edstE tree) ->
    forall p v, chain root p v -> (forall e, In e p -> In e tree) -> length p = lvl tree v.
  Proof.
    intros Ht Hr. induction p as [|e p IH] using rev_ind; intros v Hc Hin.
    - inversion Hc; subst. symmetry. now apply lvl_notin.
    - apply chain_snoc_inv in Hc. destruct Hc as [Hc <-].
      rewrite app_length. cbn [length].
      rewrite (lvl_tree_edge Ht Hr e) by (apply Hin, in_or_app; right; left; reflexivity).
      rewrite <- (IH (esrc e) Hc); [lia|]. intros e0 He0. apply Hin, in_or_app. left. exact He0.
  Qed.
End Level.

(* ------------------------------------------------------------------ *)
(* the level invariant of the fifo worklist *)
Section BfsInv.
  Variables K V E : Type.
  Variable keqb : K -> K -> bool.
  Hypothesis Hk : KeqbSpec keqb.
  Variable CB : Type.
  Variable cb : CB -> heap K V E -> edge E -> CB * heap K V E * bool.
  Variable accept : edge E -> bool.
  Variable h : heap K V E.
  Hypothesis Hwf : Wf h.
  Hypothesis Hinj : KeysInj h.
  Hypothesis Hpure : PureCb h cb accept.
  Variable d : dir.
  Variable tgt : option K.
  Variable cyc : bool.
  Variable root : nat.
  Hypothesis Hroot : root < size h.
  Hypothesis Htgt : cyc = true -> tgt = keyof h root.

  Notation sst := (sst K V E CB).
  Notation contq := (fun q : list nat => q).
  Notation GSb := (GS keqb accept h d tgt contq cyc root).
  Notation GLb := (GL keqb accept h d tgt contq cyc root).
  Notation GPb := (GP keqb accept h d tgt cyc root).
  Notation seen := (Seen root).
  Notation vl := (visl cyc root).
  Notation closed := (WClosed accept h d cyc root).
  Notation edstE := (@edst E).

  Definition Lq (tree : list (edge E)) (qa qb : list nat) (n : nat) : Prop :=
    (forall x, In x qa -> lvl tree x = n) /\ (forall x, In x qb -> lvl tree x = S n).
  Definition EdgeLv (tree : list (edge E)) (r : nat) : Prop :=
    forall x, In x (adj_of h d r) -> accept (mk_e r x) = true -> lvl tree (fst x) <= S (lvl tree r).
  Definition EdgeLvTo (tree : list (edge E)) (u pos : nat) : Prop :=
    forall i x, i < pos -> nth_error (adj_of h d u) i = Some x -> accept (mk_e u x) = true ->
                lvl tree (fst x) <= S (lvl tree u).

  Record BP (R q : list nat) (n : nat) (tree : list (edge E)) : Prop := mkBP {
    bp_q : exists qa qb, q = qa ++ qb /\ Lq tree qa qb n;
    bp_R : forall r, In r R -> lvl tree r <= n;
    bp_E : forall r, In r R -> EdgeLv tree r
  }.

  Lemma bp_q_bound R q n tree y : BP R q n tree -> In y q -> n <= lvl tree y <= S n.
  Proof.
    intros HB Hy. destruct (bp_q HB) as [qa [qb [-> [Ha Hb]]]].
    apply in_app_or in Hy. destruct Hy as [Hy|Hy]; [rewrite (Ha _ Hy)|rewrite (Hb _ Hy)]; lia.
  Qed.

  Lemma mk_e_eta (e : edge E) : mk_e (esrc e) (edst e, eval e) = e.
  Proof. destruct e as [[a b] c]. reflexivity. Qed.

  Lemma closed_edge tree (e : edge E) : closed tree (esrc e) -> good_edge h d accept e ->
    In (edst e) (vl tree).
  Proof.
    intros Hc [Hi Ha]. specialize (Hc (edst e, eval e) Hi). rewrite mk_e_eta in Hc. now apply Hc.
  Qed.

  Lemma edgelv_edge tree (e : edge E) : EdgeLv tree (esrc e) -> good_edge h d accept e ->
    lvl tree (edst e) <= S (lvl tree (esrc e)).
  Proof.
    intros Hc [Hi Ha]. specialize (Hc (edst e, eval e) Hi). rewrite mk_e_eta in Hc. now apply Hc.
  Qed.

  (* growing the tree by an edge into a fresh node does not disturb recorded levels *)
  Lemma BP_snoc R q n tree e : BP R q n tree ->
    (forall y, In y R \/ In y q -> y <> edst e) ->
    (forall r x, In r R -> In x (adj_of h d r) -> accept (mk_e r x) = true -> fst x <> edst e) ->
    BP R q n (tree ++ [e]).
  Proof.
    intros [[qa [qb [Hq [Ha Hb]]]] HR HE] Hy Hx. split.
    - exists qa, qb. split; [exact Hq|]. subst q. split; intros y Hin.
      + rewrite lvl_snoc_other; [now apply Ha|]. apply Hy. right. apply in_or_app. now left.
      + rewrite lvl_snoc_other; [now apply Hb|]. apply Hy. right. apply in_or_app. now right.
    - intros r Hr. rewrite lvl_snoc_other; [now apply HR|]. apply Hy. now left.
    - intros r Hr x Hxi Hxa. rewrite lvl_snoc_other by (eapply Hx; eauto).
      rewrite (@lvl_snoc_other _ tree e r) by (apply Hy; now left). now apply HE.
  Qed.

  Lemma BP_push R q n tree v : BP R q n tree -> lvl tree v = S n -> BP R (q ++ [v]) n tree.
  Proof.
    intros [[qa [qb [Hq [Ha Hb]]]] HR HE] Hv. split; [|exact HR|exact HE].
    exists qa, (qb ++ [v]). split; [subst q; now rewrite app_assoc|]. split; [exact Ha|].
    intros y Hy. apply in_app_or in Hy. destruct Hy as [Hy|[<-|[]]]; [now apply Hb|exact Hv].
  Qed.

  Definition BS (R : list nat) (lf sf : nat) (st : sst) (q : list nat) (u pos : nat) : Prop :=
    BP R q (lvl (s_tree st) u) (s_tree st) /\ EdgeLvTo (s_tree st) u pos.
  Definition BL (R : list nat) (f : nat) (st : sst) (q : list nat) : Prop :=
    exists n, BP R q n (s_tree st).
  Definition BF (st : sst) (v : nat) : Prop :=
    forall t w, s_tree st = t ++ [w] -> forall pth, pth <> [] ->
      IsPath h d accept root pth v -> S (lvl t (esrc w)) <= length pth.

  (* any accepted path from a discovered node at level <= n to an undiscovered node is long *)
  Lemma dist R q u vis tree : GPb R (u :: q) vis tree -> BP R q (lvl tree u) tree ->
    forall a pth b, chain a pth b -> Forall (good_edge h d accept) pth ->
    forall n, seen tree a -> lvl tree a <= n -> ~ In b (vl tree) -> pth <> [] ->
    lvl tree u + 1 <= n + length pth.
  Proof.
    intros HG HB a pth b Hc. induction Hc as [a|a e p b Hs Hc IH]; intros Hf n Ha Hl Hb Hne;
      [congruence|].
    inversion Hf as [|? ? He Hf']; subst. cbn [length].
    apply (gp_seen HG) in Ha. destruct Ha as [Hr|[Hu|Hq]].
    - pose proof (closed_edge (gp_closed HG _ Hr) He) as Hin.
      pose proof (bp_E HB) as HE. specialize (HE _ Hr). pose proof (edgelv_edge HE He) as Hlv.
      destruct p as [|e' p'].
      + inversion Hc; subst. contradiction.
      + assert (Hne' : e' :: p' <> []) by discriminate.
        apply visl_seen in Hin. specialize (IH Hf' (S n) Hin ltac:(lia) Hb Hne'). cbn [length] in *. lia.
    - subst. lia.
    - pose proof (bp_q_bound _ HB Hq). lia.
  Qed.

  Lemma BS_skip R lf sf (st : sst) q u pos x :
    GSb R st q u pos -> BS R lf (S sf) st q u pos -> nth_error (adj_of h d u) pos = Some x ->
    fresh keqb accept h st (mk_e u x) = false ->
    BS R lf sf (st_skip cb h st (mk_e u x)) q u (S pos).
  Proof.
    intros [Hh [HG Hc]] [HB HE] Hn Hf. cbv beta in HG. unfold BS, st_skip. cbn [s_tree].
    split; [exact HB|]. intros i y Hi Hy Hay.
    destruct (Nat.eq_dec i pos) as [->|Hne]; [|eapply HE; eauto; lia].
    rewrite Hn in Hy. inversion Hy; subst y. clear Hy.
    unfold fresh in Hf. change (edst (mk_e u x)) with (fst x) in Hf. rewrite Hay in Hf.
    cbn [andb] in Hf. apply negb_false_iff in Hf.
    apply (c_vis (gp_core HG)) in Hf; [|eapply adj_valid; eauto; eapply nth_error_In; eauto].
    apply visl_seen, (gp_seen HG) in Hf. destruct Hf as [Hr|[Hu|Hq]].
    - pose proof (bp_R HB) as H1. specialize (H1 _ Hr). lia.
    - rewrite <- Hu. lia.
    - pose proof (bp_q_bound _ HB Hq). lia.
  Qed.

  Lemma BS_disc R lf sf (st : sst) q u pos x :
    GSb R st q u pos -> BS R lf (S sf) st q u pos -> nth_error (adj_of h d u) pos = Some x ->
    fresh keqb accept h st (mk_e u x) = true -> is_target keqb h tgt (fst x) = false ->
    BS R lf sf (st_disc cb h st (mk_e u x)) (fifo_push q (fst x)) u (S pos).
  Proof.
    intros [Hh [HG Hc]] [HB HE] Hn Hf Ht. cbv beta in HG.
    apply fresh_true in Hf. destruct Hf as [Ha Hv]. change (edst (mk_e u x)) with (fst x) in Hv.
    pose proof (nth_error_In _ _ Hn) as Hx.
    assert (Hns : ~ seen (s_tree st) (fst x)).
    { eapply (fresh_not_seen Hk Hwf Hinj Hroot Htgt); [exact (gp_core HG)|exact Hx|exact Hv|exact Ht]. }
    assert (Fy : forall y, In y R \/ In y (u :: q) -> y <> fst x).
    { intros y Hy Heq. apply Hns. rewrite <- Heq. apply (gp_seen HG). exact Hy. }
    assert (Fx : forall r x', In r R -> In x' (adj_of h d r) -> accept (mk_e r x') = true ->
                              fst x' <> fst x).
    { intros r x' Hr Hx' Ha' Heq. apply Hns. rewrite <- Heq. apply visl_seen with (cyc := cyc).
      pose proof (gp_closed HG) as Hcl. specialize (Hcl _ Hr). now apply Hcl. }
    assert (Hu : u <> fst x) by (apply Fy; right; left; reflexivity).
    unfold BS, st_disc. cbn [s_tree]. rewrite (lvl_snoc_other (s_tree st) (mk_e u x) Hu).
    split.
    - unfold fifo_push. apply BP_push.
      + apply BP_snoc; [exact HB| |exact Fx].
        intros y [Hy|Hy]; apply Fy; [left; exact Hy|right; right; exact Hy].
      + change (fst x) with (edst (mk_e u x)). rewrite lvl_snoc_same. reflexivity.
    - intros i y Hi Hy Hay. rewrite (lvl_snoc_other (s_tree st) (mk_e u x) Hu).
      destruct (Nat.eq_dec i pos) as [->|Hne].
      + rewrite Hn in Hy. inversion Hy; subst y.
        change (fst x) with (edst (mk_e u x)). rewrite lvl_snoc_same. cbn. lia.
      + assert (Hi' : i < pos) by lia. rewrite lvl_snoc_other.
        * eapply HE; eauto.
        * intros Heq. apply Hns. change (edst (mk_e u x)) with (fst x) in Heq. rewrite <- Heq.
          apply visl_seen with (cyc := cyc). eapply Hc; eauto.
  Qed.

  Lemma BS_found R lf sf (st : sst) q u pos x :
    GSb R st q u pos -> BS R lf (S sf) st q u pos -> nth_error (adj_of h d u) pos = Some x ->
    fresh keqb accept h st (mk_e u x) = true ->
    BF (st_disc cb h st (mk_e u x)) (fst x).
  Proof.
    intros [Hh [HG Hc]] [HB HE] Hn Hf. cbv beta in HG.
    apply fresh_true in Hf. destruct Hf as [Ha Hv]. change (edst (mk_e u x)) with (fst x) in Hv.
    pose proof (nth_error_In _ _ Hn) as Hx.
    assert (Hnv : ~ In (fst x) (vl (s_tree st))).
    { eapply (unvisited Hwf); [exact (gp_core HG)|exact Hx|exact Hv]. }
    intros t w Htw pth Hne [Hch Hfo]. unfold st_disc in Htw. cbn [s_tree] in Htw.
    apply app_inj_tail in Htw. destruct Htw as [<- <-]. change (esrc (mk_e u x)) with u.
    assert (H0 : lvl (s_tree st) root = 0) by (apply lvl_notin; exact (c_root (gp_core HG))).
    pose proof (@dist R q u _ _ HG HB root pth (fst x) Hch Hfo 0 (or_introl eq_refl)
                  ltac:(lia) Hnv Hne). lia.
  Qed.

  Lemma BS_end R lf sf (st : sst) q u pos :
    BS R lf (S sf) st q u pos -> nth_error (adj_of h d u) pos = None -> BL (R ++ [u]) lf st q.
  Proof.
    intros [HB HE] Hn. exists (lvl (s_tree st) u). split.
    - exact (bp_q HB).
    - intros r Hr. apply in_app_or in Hr. destruct Hr as [Hr|[<-|[]]]; [|lia].
      pose proof (bp_R HB) as H1. now apply H1.
    - intros r Hr. apply in_app_or in Hr. destruct Hr as [Hr|[<-|[]]].
      + pose proof (bp_E HB) as H1. now apply H1.
      + intros x Hx Hax. apply In_nth_error in Hx. destruct Hx as [i Hi].
        eapply HE; eauto. apply nth_error_None in Hn.
        assert (i < length (adj_of h d u)) by (apply nth_error_Some; congruence). lia.
  Qed.

  Lemma BL_pop R f (st : sst) q u q' :
    BL R (S f) st q -> fifo_pop q = Some (u, q') -> BS R f (S f) st q' u 0.
  Proof.
    intros [n HB] Hq. destruct q as [|a q0]; [discriminate|]. cbn in Hq. inversion Hq; subst a q0.
    destruct (bp_q HB) as [qa [qb [Heq [Ha Hb]]]]. split; [|intros i x Hi; lia].
    destruct qa as [|a qa'].
    - cbn [app] in Heq. subst qb.
      assert (Hu : lvl (s_tree st) u = S n) by (apply Hb; left; reflexivity).
      rewrite Hu. split.
      + exists q', []. split; [now rewrite app_nil_r|]. split; [|intros x []].
        intros x Hx. apply Hb. right. exact Hx.
      + intros r Hr. pose proof (bp_R HB) as H1. specialize (H1 _ Hr). lia.
      + exact (bp_E HB).
    - cbn [app] in Heq. inversion Heq; subst a q'.
      assert (Hu : lvl (s_tree st) u = n) by (apply Ha; left; reflexivity).
      rewrite Hu. split.
      + exists qa', qb. split; [reflexivity|]. split; [|exact Hb].
        intros x Hx. apply Ha. right. exact Hx.
      + exact (bp_R HB).
      + exact (bp_E HB).
  Qed.

  Theorem bfs_loop R f (st : sst) q st' r :
    GLb R st q -> BL R f st q ->
    wl_loop keqb cb fifo_push fifo_pop d tgt f st q = (st', r) ->
    match r with
    | Found v => GF keqb accept h d tgt cyc root st' v /\ BF st' v
    | _ => True
    end.
  Proof.
    intros HG HB Hrun.
    pose proof (@loop_rule2 K V E keqb Hk CB cb accept h Hwf Hinj Hpure d tgt
                  (list nat) fifo_push fifo_pop contq fifo_qspec cyc root Hroot Htgt
                  BS BL BF (fun _ _ => True) True) as H.
    eapply H in Hrun; clear H; [|..|exact HG|exact HB]; try (intros; exact I).
    - destruct r; [exact Hrun|exact I|exact I].
    - intros; eapply BS_skip; eauto.
    - intros; eapply BS_disc; eauto.
    - intros; eapply BS_found; eauto.
    - intros; eapply BS_end; eauto.
    - intros; eapply BL_pop; eauto.
  Qed.
End BfsInv.

(* ------------------------------------------------------------------ *)
Section BfsMain.
  Variables K V E : Type.
  Variable keqb : K -> K -> bool.
  Hypothesis Hk : KeqbSpec keqb.
  Variable CB : Type.
  Variable cb : CB -> heap K V E -> edge E -> CB * heap K V E * bool.
  Variable accept : edge E -> bool.
  Variable vleb : V -> V -> bool.
  Variable h : heap K V E.
  Hypothesis Hwf : Wf h.
  Hypothesis Hinj : KeysInj h.
  Hypothesis Hpure : PureCb h cb accept.
  Variable d : dir.
  Variable root : nat.
  Hypothesis Hroot : root < size h.
  Variable c0 : CB.

  Notation SP k t cyc fuel := (search_path keqb cb vleb k d fuel h c0 root t cyc).
  Notation RUN k t cyc fuel := (run_search keqb cb vleb k d fuel h c0 root t cyc).
  Notation edstE := (@edst E).

  Lemma bfs_found fuel t cyc st v0 : RUN KBfs t cyc fuel = (st, Found v0) ->
    GF keqb accept h d (tgt_of h root t cyc) cyc root st v0 /\
    BF accept h d root st v0.
  Proof.
    intros Hrun. unfold run_search in Hrun.
    eapply (bfs_loop Hk Hwf Hinj Hpure Hroot (tgt_of_cyc h root t (cyc:=cyc))) in Hrun.
    - exact Hrun.
    - exact (init_GL Hk accept Hinj d Hroot c0 t cyc).
    - exists 0. unfold init_st. cbn [s_tree]. split.
      + exists [root], []. split; [reflexivity|]. split; [|intros x []].
        intros x _. reflexivity.
      + intros r [].
      + intros r [].
  Qed.

  (* the backtracked path is as short as the level bound *)
  Lemma found_len fuel t cyc st v0 p :
    RUN KBfs t cyc fuel = (st, Found v0) -> backtrack keqb (s_heap st) (s_tree st) = Some p ->
    is_target keqb h (tgt_of h root t cyc) v0 = true /\
    forall pth, pth <> [] -> IsPath h d accept root pth v0 -> length p <= length pth.
  Proof.
    intros Hrun Hb. apply bfs_found in Hrun. destruct Hrun as [HGF HBF].
    apply (found_path Hk Hwf Hinj Hroot) in HGF.
    destruct HGF as [tr [w [p1 [p0 [Htr [Hw [Hnr [Hb1 [Hp0 [Hp [Hne [Hnd [Hin [Ht Htok]]]]]]]]]]]]]].
    rewrite Hb in Hb1. assert (Hpp : p = p1) by (inversion Hb1; reflexivity). subst p1. clear Hb1.
    split; [exact Ht|]. intros pth Hpne Hpth.
    specialize (HBF tr w Htr pth Hpne Hpth).
    subst p. rewrite app_length. cbn [length].
    destruct Hp as [Hch _]. apply chain_snoc_inv in Hch. destruct Hch as [Hch _].
    assert (Hsub : forall e, In e p0 -> In e tr).
    { intros e He. assert (Hin' : In e (tr ++ [w])) by (apply Hin, in_or_app; left; exact He).
      apply in_app_or in Hin'. destruct Hin' as [H1|[<-|[]]]; [exact H1|exfalso].
      rewrite map_app in Hnd. apply NoDup_app_iff in Hnd. destruct Hnd as [_ [_ Hd]].
      apply (Hd (edst w)); [now apply in_map|left; reflexivity]. }
    rewrite (@chain_level E K V h d accept root tr (tok_prefix _ _ Htok) Hnr p0 (esrc w) Hch Hsub).
    lia.
  Qed.

  Theorem bfs_path_shortest : forall fuel t st p, keyof h root <> Some t ->
    SP KBfs (Some t) false fuel = (st, RPath p) ->
    forall v q, keyof h v = Some t -> IsPath h d accept root q v -> length p <= length q.
  Proof.
    intros fuel t st p Hrt H v q Hv Hq. unfold search_path in H.
    destruct (RUN KBfs (Some t) false fuel) as [st1 r] eqn:Hrun.
    destruct r; [|discriminate|discriminate].
    destruct (backtrack keqb (s_heap st1) (s_tree st1)) as [p1|] eqn:Hb; [|discriminate].
    assert (Hpp : p = p1) by (inversion H; reflexivity). subst p1.
    destruct (found_len _ _ _ Hrun Hb) as [Ht Hlen]. cbn [tgt_of] in Ht.
    apply (is_target_some Hk) in Ht.
    assert (v0 = v) by (eapply Hinj; eauto). subst v0.
    apply Hlen; [|exact Hq]. intros ->. destruct Hq as [Hc _]. inversion Hc; subst. congruence.
  Qed.

  Theorem bfs_cycle_shortest : forall fuel t st p, SP KBfs t true fuel = (st, RPath p) ->
    forall q, q <> [] -> IsPath h d accept root q root -> length p <= length q.
  Proof.
    intros fuel t st p H q Hne Hq. unfold search_path in H.
    destruct (RUN KBfs t true fuel) as [st1 r] eqn:Hrun.
    destruct r; [|discriminate|discriminate].
    destruct (backtrack keqb (s_heap st1) (s_tree st1)) as [p1|] eqn:Hb; [|discriminate].
    assert (Hpp : p = p1) by (inversion H; reflexivity). subst p1.
    destruct (found_len _ _ _ Hrun Hb) as [Ht Hlen]. cbn [tgt_of] in Ht.
    apply (is_target_root Hk Hinj) in Ht; [|exact Hroot]. subst v.
    apply Hlen; assumption.
  Qed.
End BfsMain.

Print Assumptions bfs_path_shortest.
Print Assumptions bfs_cycle_shortest.
