(* ConcForest.v — an UNBOUNDED serialisability theorem for a fragment of the concurrency model (C17):
   programs in which every thread is exactly one `connect`, and whose connects form a FOREST in the
   bipartite multigraph "out-list of the source -- in-list of the target" (ConcClass.prune deletes everything).
   For such programs EVERY schedule of the critical sections ends in exactly the adjacency lists (order included)
   of SOME sequential order of the same calls (forest_connects_serialisable).

   Structure:
     A. combinatorial core: per-list orders over a forest can be merged into one total order (forest_order)
     B. ConcClass.prune deletes everything  ->  the inductive forest predicate (prune_Forest)
     C. concurrent side: every list is the initial list plus the entries pushed so far (Inv, Inv_step)
     D. serial side: one thread running connects appends them in program order (run_ser)
     E. the theorem
     F. non-vacuity example, and an example showing that the forest hypothesis matters.
   Proofs only; closed under the global context. *)
From Gdsl.Model Require Import Base NodeOps Conc ConcClass.
From Gdsl.Proofs Require Import NodeLemmas ConcProof ConcCycle.
From Coq Require Import List Arith Bool Lia Permutation.
Import ListNotations.

(* ------------------------------------------------------------------ *)
(* A. the combinatorial core                                           *)
(* ------------------------------------------------------------------ *)
Section Core.
  Variable T : Type.

  Lemma filter_split (q : T -> bool) : forall p a b, filter q p = a ++ b ->
    exists p1 p2, p = p1 ++ p2 /\ filter q p1 = a /\ filter q p2 = b.
  Proof.
    induction p as [|y p IH]; intros a b H.
    - cbn [filter] in H. symmetry in H. apply app_eq_nil in H as [-> ->]. exists [], []. auto.
    - cbn [filter] in H. destruct (q y) eqn:Hq.
      + destruct a as [|a0 a].
        * exists [], (y :: p). cbn [filter app]. rewrite Hq. auto.
        * cbn [app] in H. injection H as Ha H2. subst a0. destruct (IH _ _ H2) as (p1 & p2 & -> & H1 & H3).
          exists (y :: p1), p2. cbn [filter app]. rewrite Hq, H1. auto.
      + destruct (IH _ _ H) as (p1 & p2 & -> & H1 & H3). exists (y :: p1), p2.
        cbn [filter app]. rewrite Hq. auto.
  Qed.

  Lemma filter_none (q : T -> bool) l : (forall y, In y l -> q y = false) -> filter q l = [].
  Proof.
    induction l as [|y l IH]; intros H; [reflexivity|]. cbn [filter].
    rewrite (H y (or_introl eq_refl)). apply IH. intros z Hz. apply H. now right.
  Qed.

  (* the two key functions: the two lists an element appends to *)
  Inductive Forest (f g : T -> nat) : list T -> Prop :=
  | F_nil : Forest f g []
  | F_f l1 x l2 : (forall y, In y (l1 ++ l2) -> f y <> f x) -> Forest f g (l1 ++ l2) -> Forest f g (l1 ++ x :: l2)
  | F_g l1 x l2 : (forall y, In y (l1 ++ l2) -> g y <> g x) -> Forest f g (l1 ++ l2) -> Forest f g (l1 ++ x :: l2).

  Definition keyf (a : T -> nat) (w : nat) : T -> bool := fun y => Nat.eqb (a y) w.

  (* re-insert x, the only user of its a-list, into an order p' of the others *)
  Lemma insert_one (a b : T -> nat) p' x A B C D :
    (forall y, In y p' -> a y <> a x) ->
    (forall y, In y (A ++ B) -> a y <> a x) ->
    (forall w, filter (keyf a w) p' = filter (keyf a w) (A ++ B)) ->
    (forall w, filter (keyf b w) p' = filter (keyf b w) (C ++ D)) ->
    exists p1 p2, p' = p1 ++ p2 /\
      (forall w, filter (keyf a w) (p1 ++ x :: p2) = filter (keyf a w) (A ++ x :: B)) /\
      (forall w, filter (keyf b w) (p1 ++ x :: p2) = filter (keyf b w) (C ++ x :: D)).
  Proof.
    intros Hp HAB Ha Hb.
    pose proof (Hb (b x)) as Hbx. rewrite filter_app in Hbx.
    destruct (filter_split _ _ _ _ Hbx) as (p1 & p2 & -> & H1 & H2).
    exists p1, p2. split; [reflexivity|]. split; intros w.
    - rewrite !filter_app. cbn [filter]. destruct (keyf a w x) eqn:Hk; unfold keyf in Hk.
      + apply Nat.eqb_eq in Hk. subst w. assert (Hn : forall l, (forall y, In y l -> a y <> a x) -> filter (keyf a (a x)) l = []).
        { intros l Hl. apply filter_none. intros y Hy. unfold keyf. apply Nat.eqb_neq. now apply Hl. }
        rewrite (Hn p1), (Hn p2), (Hn A), (Hn B); try reflexivity.
        * intros y Hy. apply HAB. apply in_or_app. now right.
        * intros y Hy. apply HAB. apply in_or_app. now left.
        * intros y Hy. apply Hp. apply in_or_app. now right.
        * intros y Hy. apply Hp. apply in_or_app. now left.
      + specialize (Ha w). now rewrite !filter_app in Ha.
    - rewrite !filter_app. cbn [filter]. destruct (keyf b w x) eqn:Hk; unfold keyf in Hk.
      + apply Nat.eqb_eq in Hk. subst w. now rewrite H1, H2.
      + specialize (Hb w). now rewrite !filter_app in Hb.
  Qed.

  Theorem forest_order (f g : T -> nat) l : Forest f g l ->
    forall LO LI, Permutation LO l -> Permutation LI l ->
    exists p, Permutation p l /\
      forall w, filter (keyf f w) p = filter (keyf f w) LO /\ filter (keyf g w) p = filter (keyf g w) LI.
  Proof.
    induction 1 as [|l1 x l2 Hx HF IH|l1 x l2 Hx HF IH]; intros LO LI HO HI.
    - apply Permutation_sym, Permutation_nil in HO. apply Permutation_sym, Permutation_nil in HI. subst.
      exists []. split; [constructor|]. intros w. split; reflexivity.
    - assert (HxO : In x LO) by (eapply Permutation_in; [apply Permutation_sym; exact HO|apply in_elt]).
      assert (HxI : In x LI) by (eapply Permutation_in; [apply Permutation_sym; exact HI|apply in_elt]).
      apply in_split in HxO as (A & B & ->). apply in_split in HxI as (C & D & ->).
      apply Permutation_app_inv in HO. apply Permutation_app_inv in HI.
      destruct (IH _ _ HO HI) as (p' & Hp' & Hag).
      destruct (insert_one f g p' x A B C D) as (p1 & p2 & -> & Hf & Hg).
      + intros y Hy. apply Hx. exact (Permutation_in y Hp' Hy).
      + intros y Hy. apply Hx. exact (Permutation_in y HO Hy).
      + intros w. apply Hag.
      + intros w. apply Hag.
      + exists (p1 ++ x :: p2). split; [now apply Permutation_elt|]. intros w. split; [apply Hf|apply Hg].
    - assert (HxO : In x LO) by (eapply Permutation_in; [apply Permutation_sym; exact HO|apply in_elt]).
      assert (HxI : In x LI) by (eapply Permutation_in; [apply Permutation_sym; exact HI|apply in_elt]).
      apply in_split in HxO as (A & B & ->). apply in_split in HxI as (C & D & ->).
      apply Permutation_app_inv in HO. apply Permutation_app_inv in HI.
      destruct (IH _ _ HO HI) as (p' & Hp' & Hag).
      destruct (insert_one g f p' x C D A B) as (p1 & p2 & -> & Hg & Hf).
      + intros y Hy. apply Hx. exact (Permutation_in y Hp' Hy).
      + intros y Hy. apply Hx. exact (Permutation_in y HI Hy).
      + intros w. apply Hag.
      + intros w. apply Hag.
      + exists (p1 ++ x :: p2). split; [now apply Permutation_elt|]. intros w. split; [apply Hf|apply Hg].
  Qed.
End Core.

(* ------------------------------------------------------------------ *)
(* B. ConcClass.prune deletes everything -> Forest                      *)
(* ------------------------------------------------------------------ *)
Inductive sub {A : Type} : list A -> list A -> Prop :=
| sub_nil : sub [] []
| sub_keep x l1 l2 : sub l1 l2 -> sub (x :: l1) (x :: l2)
| sub_skip x l1 l2 : sub l1 l2 -> sub l1 (x :: l2).

Section Sub.
  Variable A : Type.
  Implicit Types l : list A.

  Lemma sub_refl l : sub l l.
  Proof. induction l; constructor; assumption. Qed.

  Lemma sub_nil_r l : sub l [] -> l = [].
  Proof. intros H. inversion H. reflexivity. Qed.

  Lemma sub_length l1 l2 : sub l1 l2 -> length l1 <= length l2.
  Proof. induction 1; cbn [length]; lia. Qed.

  Lemma sub_filter (q1 q2 : A -> bool) l1 l2 :
    sub l1 l2 -> (forall x, q1 x = true -> q2 x = true) -> sub (filter q1 l1) (filter q2 l2).
  Proof.
    intros H Hq. induction H as [|x l1 l2 H IH|x l1 l2 H IH]; cbn [filter].
    - constructor.
    - destruct (q1 x) eqn:H1.
      + rewrite (Hq _ H1). now constructor.
      + destruct (q2 x); [now constructor|exact IH].
    - destruct (q2 x); [now constructor|exact IH].
  Qed.

  Lemma sub_app_drop l1 x l2 : sub (l1 ++ l2) (l1 ++ x :: l2).
  Proof. induction l1 as [|y l1 IH]; cbn [app]; constructor; [apply sub_refl|exact IH]. Qed.

  Lemma filter_le1 (q : A -> bool) l1 x l2 :
    q x = true -> length (filter q (l1 ++ x :: l2)) <= 1 -> forall z, In z (l1 ++ l2) -> q z = false.
  Proof.
    intros Hq Hlen z Hz. rewrite filter_app in Hlen. cbn [filter] in Hlen. rewrite Hq, app_length in Hlen.
    cbn [length] in Hlen. destruct (q z) eqn:Hqz; [|reflexivity]. exfalso.
    apply in_app_or in Hz as [Hz|Hz].
    - assert (Hin : In z (filter q l1)) by (apply filter_In; now split).
      destruct (filter q l1); [destruct Hin|cbn [length] in Hlen; lia].
    - assert (Hin : In z (filter q l2)) by (apply filter_In; now split).
      destruct (filter q l2); [destruct Hin|cbn [length] in Hlen; lia].
  Qed.

  Lemma forallb_false (q : A -> bool) l : forallb q l = false -> exists x, In x l /\ q x = false.
  Proof.
    induction l as [|y l IH]; cbn [forallb]; [discriminate|]. intros H.
    destruct (q y) eqn:Hy.
    - cbn [andb] in H. destruct (IH H) as (x & Hin & Hx). exists x. split; [now right|exact Hx].
    - exists y. split; [now left|exact Hy].
  Qed.

  Lemma filter_all (q : A -> bool) l : forallb q l = true -> filter q l = l.
  Proof.
    induction l as [|y l IH]; cbn [forallb filter]; [reflexivity|]. intros H.
    apply andb_true_iff in H as [Hy Hl]. rewrite Hy. f_equal. now apply IH.
  Qed.
End Sub.

Definition srcT (p : nat * nat * nat) : nat := snd (fst p).
Definition dstT (p : nat * nat * nat) : nat := snd p.
Definition keepT (l : list (nat * nat * nat)) (p : nat * nat * nat) : bool :=
  Nat.ltb 1 (cnt_src l (snd (fst p))) && Nat.ltb 1 (cnt_dst l (snd p)).

Lemma cnt_src_sub l1 l2 u : sub l1 l2 -> cnt_src l1 u <= cnt_src l2 u.
Proof. intros H. unfold cnt_src. apply sub_length. apply sub_filter; auto. Qed.

Lemma cnt_dst_sub l1 l2 u : sub l1 l2 -> cnt_dst l1 u <= cnt_dst l2 u.
Proof. intros H. unfold cnt_dst. apply sub_length. apply sub_filter; auto. Qed.

Lemma prune1_sub l1 l2 : sub l1 l2 -> sub (prune1 l1) (prune1 l2).
Proof.
  intros H. unfold prune1. apply sub_filter; [exact H|]. intros x Hx.
  apply andb_true_iff in Hx as [H1 H2]. apply Nat.ltb_lt in H1. apply Nat.ltb_lt in H2.
  apply andb_true_iff. split; apply Nat.ltb_lt.
  - pose proof (cnt_src_sub _ _ (snd (fst x)) H). lia.
  - pose proof (cnt_dst_sub _ _ (snd x) H). lia.
Qed.

Lemma prune_sub n : forall l1 l2, sub l1 l2 -> sub (prune n l1) (prune n l2).
Proof. induction n as [|n IH]; intros l1 l2 H; cbn [prune]; [exact H|]. apply IH. now apply prune1_sub. Qed.

Lemma prune_fix n l : prune1 l = l -> prune n l = l.
Proof. intros H. induction n as [|n IH]; cbn [prune]; [reflexivity|]. now rewrite H. Qed.

Lemma prune_Forest (T : Type) (phi : T -> nat * nat * nat) (f g : T -> nat) :
  (forall y, srcT (phi y) = f y) -> (forall y, dstT (phi y) = g y) ->
  forall m (l : list T), length l <= m -> forall n, prune n (map phi l) = [] -> Forest T f g l.
Proof.
  intros Hf Hg. induction m as [|m IH]; intros l Hlen n Hpr.
  - destruct l; [constructor|cbn [length] in Hlen; lia].
  - destruct l as [|y0 l0] eqn:El; [constructor|]. rewrite <- El in *.
    destruct (forallb (keepT (map phi l)) (map phi l)) eqn:Hall.
    + exfalso. apply filter_all in Hall. change (prune1 (map phi l) = map phi l) in Hall.
      rewrite (prune_fix n _ Hall) in Hpr. subst l. discriminate.
    + apply forallb_false in Hall as (x' & Hin & Hx').
      apply in_map_iff in Hin as (y & <- & Hy). apply in_split in Hy as (a & b & Hab).
      assert (Hlen' : length (a ++ b) <= m).
      { rewrite Hab in Hlen. rewrite app_length in *. cbn [length] in Hlen. lia. }
      assert (Hpr' : prune n (map phi (a ++ b)) = []).
      { apply sub_nil_r. rewrite <- Hpr. apply prune_sub. rewrite Hab, !map_app. cbn [map]. apply sub_app_drop. }
      assert (Hmap : map phi l = map phi a ++ phi y :: map phi b) by (rewrite Hab, map_app; reflexivity).
      unfold keepT in Hx'. apply andb_false_iff in Hx' as [Hx'|Hx']; apply Nat.ltb_ge in Hx'.
      * rewrite Hab. apply F_f; [|now apply (IH _ Hlen' n)].
        intros z Hz. rewrite <- !Hf. unfold srcT.
        unfold cnt_src in Hx'. rewrite Hmap in Hx'.
        assert (Hq : Nat.eqb (snd (fst (phi z))) (snd (fst (phi y))) = false).
        { apply (filter_le1 _ (fun p => Nat.eqb (snd (fst p)) (snd (fst (phi y)))) _ _ _ (Nat.eqb_refl _) Hx').
          rewrite <- map_app. now apply in_map. }
        now apply Nat.eqb_neq.
      * rewrite Hab. apply F_g; [|now apply (IH _ Hlen' n)].
        intros z Hz. rewrite <- !Hg. unfold dstT.
        unfold cnt_dst in Hx'. rewrite Hmap in Hx'.
        assert (Hq : Nat.eqb (snd (phi z)) (snd (phi y)) = false).
        { apply (filter_le1 _ (fun p => Nat.eqb (snd p) (snd (phi y))) _ _ _ (Nat.eqb_refl _) Hx').
          rewrite <- map_app. now apply in_map. }
        now apply Nat.eqb_neq.
Qed.

(* ------------------------------------------------------------------ *)
(* small list facts                                                    *)
(* ------------------------------------------------------------------ *)
Lemma iota_seq n : forall s, iota s n = seq s n.
Proof. induction n as [|n IH]; intros s; cbn [iota seq]; [reflexivity|now rewrite IH]. Qed.

Lemma iota_length n s : length (iota s n) = n.
Proof. rewrite iota_seq. apply seq_length. Qed.

Lemma map_fst_combine' {A B} : forall (l1 : list A) (l2 : list B),
  length l1 = length l2 -> map fst (combine l1 l2) = l1.
Proof.
  induction l1 as [|a l1 IH]; intros [|b l2] H; cbn [combine map fst length] in *; try reflexivity; try discriminate.
  f_equal. apply IH. lia.
Qed.

Lemma map_snd_combine' {A B} : forall (l1 : list A) (l2 : list B),
  length l1 = length l2 -> map snd (combine l1 l2) = l2.
Proof.
  induction l1 as [|a l1 IH]; intros [|b l2] H; cbn [combine map snd length] in *; try reflexivity; try discriminate.
  f_equal. apply IH. lia.
Qed.

Lemma filter_map {A B} (q : B -> bool) (phi : A -> B) l :
  filter q (map phi l) = map phi (filter (fun x => q (phi x)) l).
Proof.
  induction l as [|y l IH]; cbn [map filter]; [reflexivity|]. destruct (q (phi y)); cbn [map]; now rewrite IH.
Qed.

Lemma concat_map_single {A B} (phi : A -> B) l : concat (map (fun c => [phi c]) l) = map phi l.
Proof. induction l as [|y l IH]; cbn [map concat app]; [reflexivity|now rewrite IH]. Qed.

Lemma Forall2_impl_in {A B} (P Q : A -> B -> Prop) l l' :
  (forall a b, In a l -> P a b -> Q a b) -> Forall2 P l l' -> Forall2 Q l l'.
Proof.
  intros H HF. induction HF as [|a b l l' Hab HF IH]; constructor.
  - apply H; [now left|exact Hab].
  - apply IH. intros a' b' Hin. apply H. now right.
Qed.

(* ------------------------------------------------------------------ *)
(* C-E. the model                                                       *)
(* ------------------------------------------------------------------ *)
Section ConcForest.
  Variables K V E : Type.
  Variable keqb : K -> K -> bool.
  Notation heap := (heap K V E).
  Notation prog := (prog K V E).
  Notation thread := (thread K V E).
  Notation config := (config K V E).
  Notation call := (call K E).
  Notation cstep := (cstep keqb).
  Notation settle := (@settle K V E keqb).

  Definition single_connects (threads : list (list call)) : Prop :=
    forall t, In t threads -> exists u v e, t = [CConnect K u v e].

  (* a connect as data *)
  Definition conn := (nat * nat * E)%type.
  Definition c_src (c : conn) : nat := fst (fst c).
  Definition c_dst (c : conn) : nat := snd (fst c).
  Definition c_val (c : conn) : E := snd c.
  Definition call_of (c : conn) : call := CConnect K (c_src c) (c_dst c) (c_val c).
  Definition eo (c : conn) : nat * E := (c_dst c, c_val c).     (* the entry pushed onto outs (c_src c) *)
  Definition ei (c : conn) : nat * E := (c_src c, c_val c).     (* the entry pushed onto ins (c_dst c) *)

  (* a connect with its thread id *)
  Definition item := (nat * conn)%type.
  Definition i_src (x : item) : nat := c_src (snd x).
  Definition i_dst (x : item) : nat := c_dst (snd x).
  Definition phi (x : item) : nat * nat * nat := (fst x, i_src x, i_dst x).
  Definition items (cs : list conn) : list item := combine (iota 0 (length cs)) cs.
  Definition mk (c : conn) : list call := [call_of c].

  Lemma single_connects_conns threads : single_connects threads -> exists cs, threads = map mk cs.
  Proof.
    induction threads as [|t r IH]; intros H; [exists []; reflexivity|].
    destruct (H t (or_introl eq_refl)) as (u & v & e & ->).
    destruct IH as (cs & ->); [intros t Ht; apply H; now right|].
    exists ((u, v, e) :: cs). reflexivity.
  Qed.

  Lemma thread_connects_aux : forall cs pre,
    flat_map (fun i => flat_map (fun c : call => match c with CConnect _ u v _ => [(i, u, v)] | _ => [] end)
                                (nth i (pre ++ map mk cs) []))
             (iota (length pre) (length cs))
    = map phi (combine (iota (length pre) (length cs)) cs).
  Proof.
    induction cs as [|c cs IH]; intros pre; [reflexivity|].
    cbn [length iota flat_map combine map].
    rewrite app_nth2 by lia. rewrite Nat.sub_diag. cbn [nth mk call_of flat_map app].
    f_equal.
    specialize (IH (pre ++ [mk c])). rewrite app_length in IH. cbn [length] in IH.
    rewrite Nat.add_1_r in IH. rewrite <- app_assoc in IH. exact IH.
  Qed.

  Lemma thread_connects_items cs : thread_connects (map mk cs) = map phi (items cs).
  Proof.
    unfold thread_connects, items. rewrite map_length. exact (thread_connects_aux cs []).
  Qed.

  Lemma items_length cs : length (items cs) = length cs.
  Proof. unfold items, item. rewrite combine_length, iota_length. lia. Qed.

  Lemma items_snd cs : map snd (items cs) = cs.
  Proof. unfold items. apply map_snd_combine'. apply iota_length. Qed.

  Lemma items_NoDup cs : NoDup (items cs).
  Proof.
    apply (NoDup_map_inv fst). unfold items. rewrite map_fst_combine' by apply iota_length.
    rewrite iota_seq. apply seq_NoDup.
  Qed.

  (* ---------------- the three states of a one-connect thread ---------------- *)
  Definition half (u v : nat) (e : E) : prog :=
    Step v true (fun h => (set_ins h v (ins h v ++ [(u, e)]), Ret K V (RO OkU))).

  Lemma m_connect_half u v e :
    m_connect K V u v e = Step u true (fun h => (set_outs h u (outs h u ++ [(v, e)]), half u v e)).
  Proof. reflexivity. Qed.

  Definition T0 (c : conn) : thread := mkT (Some (m_connect K V (c_src c) (c_dst c) (c_val c))) [] [] TRun.
  Definition T1 (c : conn) : thread := mkT (Some (half (c_src c) (c_dst c) (c_val c))) [] [] TRun.
  Definition T2 : thread := mkT None [] [RO OkU] TDone.

  Lemma cstep_first directed (c : config) tid u v e rest rs :
    nth_error (c_threads c) tid = Some (mkT (Some (m_connect K V u v e)) rest rs TRun) ->
    c_poisoned c = [] ->
    cstep directed c tid =
      (mkC (set_outs (c_heap c) u (outs (c_heap c) u ++ [(v, e)])) []
           (set_nth (c_threads c) tid (mkT (Some (half u v e)) rest rs TRun)),
       Some (tid, u, true)).
  Proof.
    intros Hn Hp.
    rewrite (cstep_run_np K V E keqb directed c tid _ u true
               (fun h => (set_outs h u (outs h u ++ [(v, e)]), half u v e)) Hn eq_refl eq_refl)
      by (rewrite Hp; reflexivity).
    cbn [fst snd t_rest t_results]. rewrite Hp. unfold half at 1.
    erewrite settle_step by reflexivity. reflexivity.
  Qed.

  Lemma settle_ret directed n r rest rs :
    settle directed (S (S n)) (mkT (Some (Ret K V r)) rest rs TRun) =
    match rest with
    | [] => mkT None [] (rs ++ [r]) TDone
    | c :: rest' => settle directed n (mkT (Some (prog_of V keqb directed c)) rest' (rs ++ [r]) TRun)
    end.
  Proof. cbn [Conc.settle t_status t_cur t_rest t_results]. destruct rest; reflexivity. Qed.

  Lemma cstep_second directed (c : config) tid u v e rest rs :
    nth_error (c_threads c) tid = Some (mkT (Some (half u v e)) rest rs TRun) ->
    c_poisoned c = [] ->
    cstep directed c tid =
      (mkC (set_ins (c_heap c) v (ins (c_heap c) v ++ [(u, e)])) []
           (set_nth (c_threads c) tid
              (settle directed (2 * length rest + 4) (mkT (Some (Ret K V (RO OkU))) rest rs TRun))),
       Some (tid, v, true)).
  Proof.
    intros Hn Hp.
    rewrite (cstep_run_np K V E keqb directed c tid _ v true
               (fun h => (set_ins h v (ins h v ++ [(u, e)]), Ret K V (RO OkU))) Hn eq_refl eq_refl)
      by (rewrite Hp; reflexivity).
    cbn [fst snd t_rest t_results]. rewrite Hp. reflexivity.
  Qed.

  Lemma cstep_idle directed (c : config) tid :
    (forall t, nth_error (c_threads c) tid = Some t -> t_status t = TDone) ->
    cstep directed c tid = (c, None).
  Proof.
    intros H. unfold Conc.cstep. destruct (nth_error (c_threads c) tid) as [t|]; [|reflexivity].
    now rewrite (H t eq_refl).
  Qed.

  Lemma mk_thread_T0 directed c : mk_thread V keqb directed (mk c) = T0 c.
  Proof. reflexivity. Qed.

  (* ---------------- C. the concurrent invariant ---------------- *)
  Definition stage (LO LI : list item) (x : item) (t : thread) : Prop :=
    (t = T0 (snd x) /\ ~ In x LO /\ ~ In x LI) \/
    (t = T1 (snd x) /\ In x LO /\ ~ In x LI) \/
    (t = T2 /\ In x LO /\ In x LI).

  Lemma stage_ext LO LI LO' LI' x t :
    (In x LO <-> In x LO') -> (In x LI <-> In x LI') -> stage LO LI x t -> stage LO' LI' x t.
  Proof. unfold stage. intros H1 H2 H. tauto. Qed.

  Definition Inv (h : heap) (its : list item) (c : config) : Prop :=
    c_poisoned c = [] /\
    exists LO LI, NoDup LO /\ NoDup LI /\ incl LO its /\ incl LI its /\
      Forall2 (stage LO LI) its (c_threads c) /\
      (forall w, outs (c_heap c) w = outs h w ++ map (fun x => eo (snd x)) (filter (keyf item i_src w) LO)) /\
      (forall w, ins (c_heap c) w = ins h w ++ map (fun x => ei (snd x)) (filter (keyf item i_dst w) LI)).

  Lemma in_snoc_other {A} (l : list A) x y : y <> x -> (In y l <-> In y (l ++ [x])).
  Proof.
    intros Hne. split; intros H.
    - apply in_or_app. now left.
    - apply in_app_or in H as [H|[H|[]]]; [exact H|congruence].
  Qed.

  Lemma NoDup_snoc {A} (l : list A) x : NoDup l -> ~ In x l -> NoDup (l ++ [x]).
  Proof.
    intros Hn Hx. eapply Permutation_NoDup; [apply Permutation_cons_append|]. now constructor.
  Qed.

  Lemma Inv_step directed h its (c : config) tid :
    NoDup its -> Inv h its c -> Inv h its (fst (cstep directed c tid)).
  Proof.
    intros Hnd (Hp & LO & LI & HnO & HnI & HiO & HiI & HF & Ho & Hi).
    destruct (nth_error (c_threads c) tid) as [t|] eqn:Hn.
    2:{ rewrite cstep_idle by (intros t Ht; rewrite Hn in Ht; discriminate).
        split; [exact Hp|]. exists LO, LI. repeat split; assumption. }
    destruct (nth_error_split _ _ Hn) as (ts1 & ts2 & Hts & Hlen).
    pose proof HF as HF0.
    rewrite Hts in HF. apply Forall2_app_inv_r in HF as (i1 & i2' & HF1 & HF2 & Hits).
    inversion HF2 as [|x t' i2 ts2' Hst HF2' E1 E2]; subst t' ts2' i2'. clear HF2.
    assert (Hx : ~ In x (i1 ++ i2)) by (rewrite Hits in Hnd; now apply NoDup_remove_2 in Hnd).
    assert (Hxin : In x its) by (rewrite Hits; apply in_elt).
    assert (Hne1 : forall y, In y i1 -> y <> x).
    { intros y Hy ->. apply Hx. apply in_or_app. now left. }
    assert (Hne2 : forall y, In y i2 -> y <> x).
    { intros y Hy ->. apply Hx. apply in_or_app. now right. }
    destruct Hst as [(-> & HxO & HxI)|[(-> & HxO & HxI)|(-> & HxO & HxI)]].
    - (* first half: push onto outs (src) *)
      rewrite (cstep_first directed c tid _ _ _ _ _ Hn Hp). cbn [fst].
      split; [reflexivity|]. exists (LO ++ [x]), LI. cbn [c_threads c_heap].
      split; [now apply NoDup_snoc|]. split; [exact HnI|].
      split; [apply incl_app; [exact HiO|intros y [<-|[]]; exact Hxin]|]. split; [exact HiI|].
      split; [|split].
      + rewrite Hts, <- Hlen, set_nth_app, Hits. apply Forall2_app; [|constructor].
        * eapply Forall2_impl_in; [|exact HF1]. intros y t Hy. apply stage_ext; [|tauto].
          apply in_snoc_other. now apply Hne1.
        * right. left. split; [reflexivity|]. split; [apply in_or_app; right; now left|exact HxI].
        * eapply Forall2_impl_in; [|exact HF2']. intros y t Hy. apply stage_ext; [|tauto].
          apply in_snoc_other. now apply Hne2.
      + intros w. cbn [outs set_outs]. rewrite filter_app, map_app. cbn [filter]. unfold keyf at 2.
        fold (i_src x). unfold upd.
        destruct (Nat.eqb_spec w (i_src x)) as [->|Hne].
        * rewrite Nat.eqb_refl. cbn [map]. rewrite Ho, <- app_assoc. reflexivity.
        * destruct (Nat.eqb_spec (i_src x) w) as [Heq|_]; [congruence|]. cbn [map]. rewrite app_nil_r. apply Ho.
      + intros w. cbn [ins set_outs]. apply Hi.
    - (* second half: push onto ins (dst) *)
      rewrite (cstep_second directed c tid _ _ _ _ _ Hn Hp). cbn [fst].
      split; [reflexivity|]. exists LO, (LI ++ [x]). cbn [c_threads c_heap].
      split; [exact HnO|]. split; [now apply NoDup_snoc|]. split; [exact HiO|].
      split; [apply incl_app; [exact HiI|intros y [<-|[]]; exact Hxin]|].
      split; [|split].
      + rewrite Hts, <- Hlen, set_nth_app, Hits. apply Forall2_app; [|constructor].
        * eapply Forall2_impl_in; [|exact HF1]. intros y t Hy. apply stage_ext; [tauto|].
          apply in_snoc_other. now apply Hne1.
        * right. right. split; [reflexivity|]. split; [exact HxO|apply in_or_app; right; now left].
        * eapply Forall2_impl_in; [|exact HF2']. intros y t Hy. apply stage_ext; [tauto|].
          apply in_snoc_other. now apply Hne2.
      + intros w. cbn [outs set_ins]. apply Ho.
      + intros w. cbn [ins set_ins]. rewrite filter_app, map_app. cbn [filter]. unfold keyf at 2.
        fold (i_dst x). unfold upd.
        destruct (Nat.eqb_spec w (i_dst x)) as [->|Hne].
        * rewrite Nat.eqb_refl. cbn [map]. rewrite Hi, <- app_assoc. reflexivity.
        * destruct (Nat.eqb_spec (i_dst x) w) as [Heq|_]; [congruence|]. cbn [map]. rewrite app_nil_r. apply Hi.
    - (* already finished *)
      rewrite cstep_idle by (intros t Ht; rewrite Hn in Ht; inversion Ht; reflexivity).
      split; [exact Hp|]. exists LO, LI. repeat split; assumption.
  Qed.

  Lemma Forall2_init : forall (cs : list conn) (l : list nat), length l = length cs ->
    Forall2 (stage [] []) (combine l cs) (map T0 cs).
  Proof.
    induction cs as [|c cs IH]; intros [|i l] Hl; cbn [length combine map] in *; try discriminate; constructor.
    - left. split; [reflexivity|]. split; intros [].
    - apply IH. lia.
  Qed.

  Lemma Inv_init directed h cs : Inv h (items cs) (init_config keqb directed h (map mk cs)).
  Proof.
    split; [reflexivity|]. exists [], []. cbn [init_config c_threads c_heap].
    split; [constructor|]. split; [constructor|]. split; [intros x []|]. split; [intros x []|].
    split; [|split].
    - rewrite map_map. rewrite (map_ext _ T0) by (intros c; apply mk_thread_T0).
      apply Forall2_init. apply iota_length.
    - intros w. cbn [filter map]. now rewrite app_nil_r.
    - intros w. cbn [filter map]. now rewrite app_nil_r.
  Qed.

  Lemma stage_done LO LI its ts :
    Forall2 (stage LO LI) its ts ->
    forallb (fun t : thread => match t_status t with TDone => true | _ => false end) ts = true ->
    (forall x, In x its -> In x LO /\ In x LI) /\ (forall t, In t ts -> t = T2).
  Proof.
    induction 1 as [|x t its ts Hst HF IH]; cbn [forallb]; intros Hd; [split; intros x []|].
    apply andb_true_iff in Hd as [Ht Hd]. destruct (IH Hd) as [IH1 IH2].
    destruct Hst as [(-> & _)|[(-> & _)|(-> & HxO & HxI)]]; try discriminate.
    split.
    - intros y [<-|Hy]; [now split|now apply IH1].
    - intros t [<-|Ht']; [reflexivity|now apply IH2].
  Qed.

  (* ---------------- D. one thread running connects in program order ---------------- *)
  Definition Sser (cs : list conn) (rs : list (cres E)) : thread :=
    match cs with
    | [] => mkT None [] rs TDone
    | c :: r => mkT (Some (m_connect K V (c_src c) (c_dst c) (c_val c))) (map call_of r) rs TRun
    end.

  Lemma mk_thread_ser directed cs : mk_thread V keqb directed (map call_of cs) = Sser cs [].
  Proof.
    destruct cs as [|c r]; [reflexivity|].
    unfold mk_thread. cbn [map length]. rewrite Nat.mul_succ_r, Nat.add_comm. cbn [Nat.add].
    cbn [Conc.settle t_status t_cur t_rest t_results call_of Conc.prog_of]. reflexivity.
  Qed.

  Lemma settle_ret_ser directed n cs rs r :
    2 <= n -> settle directed n (mkT (Some (Ret K V r)) (map call_of cs) rs TRun) = Sser cs (rs ++ [r]).
  Proof.
    intros Hn. destruct n as [|[|n]]; try lia. rewrite settle_ret.
    destruct cs as [|c cs]; cbn [map Sser]; [reflexivity|].
    cbn [call_of Conc.prog_of]. erewrite settle_step by reflexivity. reflexivity.
  Qed.

  Lemma run_sched_step directed f (c c1 : config) tid ev evs :
    first_runnable c = Some tid -> cstep directed c tid = (c1, Some ev) ->
    run_sched keqb directed (S f) c [] evs = run_sched keqb directed f c1 [] (ev :: evs).
  Proof. intros H1 H2. cbn [run_sched]. rewrite H1, H2. reflexivity. Qed.

  Lemma run_ser directed : forall cs fuel (h : heap) rs evs,
    2 * length cs <= fuel ->
    let c' := fst (run_sched keqb directed fuel (mkC h [] [Sser cs rs]) [] evs) in
    all_done c' = true /\
    (forall w, outs (c_heap c') w = outs h w ++ map eo (filter (keyf conn c_src w) cs)) /\
    (forall w, ins (c_heap c') w = ins h w ++ map ei (filter (keyf conn c_dst w) cs)) /\
    (exists t, c_threads c' = [t] /\ t_results t = rs ++ map (fun _ => RO OkU) cs).
  Proof.
    induction cs as [|c cs IH]; intros fuel h rs evs Hfuel.
    - assert (Hrun : run_sched keqb directed fuel (mkC h [] [Sser [] rs]) [] evs = (mkC h [] [Sser [] rs], rev evs))
        by (destruct fuel; reflexivity).
      cbv zeta. rewrite Hrun. cbn [fst c_heap c_threads filter map]. split; [reflexivity|].
      split; [intros w; now rewrite app_nil_r|]. split; [intros w; now rewrite app_nil_r|].
      eexists. split; [reflexivity|]. cbn [Sser t_results]. now rewrite app_nil_r.
    - cbn [length] in Hfuel. destruct fuel as [|[|fuel]]; try lia.
      cbv zeta.
      erewrite run_sched_step;
        [|reflexivity|apply cstep_first; [cbn [c_threads nth_error Sser]; reflexivity|reflexivity]].
      cbn [c_heap c_threads set_nth].
      erewrite run_sched_step;
        [|reflexivity|apply cstep_second; [cbn [c_threads nth_error]; reflexivity|reflexivity]].
      cbn [c_heap c_threads set_nth]. rewrite settle_ret_ser by lia.
      match goal with |- context [run_sched keqb directed fuel (mkC ?h2 [] _) [] ?evs2] =>
        destruct (IH fuel h2 (rs ++ [RO OkU]) evs2) as (Hd & Ho & Hi & t & Ht & Hr); [lia|] end.
      split; [exact Hd|]. split; [|split].
      + intros w. rewrite Ho. cbn [outs set_ins set_outs filter]. unfold keyf at 2. unfold upd.
        destruct (Nat.eqb_spec w (c_src c)) as [->|Hne].
        * rewrite Nat.eqb_refl. cbn [map]. rewrite <- app_assoc. reflexivity.
        * destruct (Nat.eqb_spec (c_src c) w) as [Heq|_]; [congruence|reflexivity].
      + intros w. rewrite Hi. cbn [ins set_ins set_outs filter]. unfold keyf at 2. unfold upd.
        destruct (Nat.eqb_spec w (c_dst c)) as [->|Hne].
        * rewrite Nat.eqb_refl. cbn [map]. rewrite <- app_assoc. reflexivity.
        * destruct (Nat.eqb_spec (c_dst c) w) as [Heq|_]; [congruence|reflexivity].
      + exists t. split; [exact Ht|]. rewrite Hr, <- app_assoc. reflexivity.
  Qed.

  (* ---------------- E. the theorem ---------------- *)
  (* the strong form: no validity hypothesis is needed (the model's adjacency tables are total functions), any
     serial fuel >= 2 * length p suffices, and the results agree too (every connect returns Ok(())) *)
  Theorem forest_connects_serialisable_strong : forall directed (h : heap) threads fuel sched n sfuel,
    single_connects threads ->
    prune n (thread_connects threads) = [] ->
    let c := fst (run_sched keqb directed fuel (init_config keqb directed h threads) sched []) in
    all_done c = true ->
    exists p, Permutation p (concat threads) /\
      (2 * length p <= sfuel ->
       let c' := fst (run_sched keqb directed sfuel (init_config keqb directed h [p]) [] []) in
       all_done c' = true /\
       (forall w, outs (c_heap c) w = outs (c_heap c') w /\ ins (c_heap c) w = ins (c_heap c') w) /\
       (forall t, In t (c_threads c) -> t_results t = [RO OkU]) /\
       (forall t, In t (c_threads c') -> t_results t = map (fun _ => RO OkU) p)).
  Proof.
    intros directed h threads fuel sched n sfuel Hsingle Hprune c Hdone.
    destruct (single_connects_conns _ Hsingle) as (cs & ->).
    rewrite thread_connects_items in Hprune.
    assert (HFo : Forest item i_src i_dst (items cs)).
    { apply (prune_Forest item phi i_src i_dst (fun _ => eq_refl) (fun _ => eq_refl) _ _ (le_n _) n Hprune). }
    assert (Hinv : Inv h (items cs) c).
    { apply (run_sched_inv K V E keqb directed (Inv h (items cs))).
      - intros c0 tid. apply Inv_step. apply items_NoDup.
      - apply Inv_init. }
    destruct Hinv as (_ & LO & LI & HnO & HnI & HiO & HiI & HF & Ho & Hi).
    destruct (stage_done _ _ _ _ HF Hdone) as [Hall Hres].
    assert (HpO : Permutation LO (items cs)).
    { apply NoDup_Permutation; [exact HnO|apply items_NoDup|]. intros x. split; [apply HiO|apply Hall]. }
    assert (HpI : Permutation LI (items cs)).
    { apply NoDup_Permutation; [exact HnI|apply items_NoDup|]. intros x. split; [apply HiI|apply Hall]. }
    destruct (forest_order item i_src i_dst _ HFo LO LI HpO HpI) as (pit & Hpit & Hag).
    exists (map call_of (map snd pit)). split.
    - unfold mk. rewrite concat_map_single. apply Permutation_map. rewrite <- (items_snd cs).
      now apply Permutation_map.
    - intros Hsf c'. rewrite !map_length in Hsf.
      unfold c', Conc.init_config. cbn [map]. rewrite mk_thread_ser.
      destruct (run_ser directed (map snd pit) sfuel h [] []) as (Hd & Ho' & Hi' & t & Ht & Hr);
        [rewrite map_length; exact Hsf|].
      split; [exact Hd|]. split; [|split].
      + intros w. rewrite Ho, Ho', Hi, Hi'. rewrite !filter_map, !map_map.
        destruct (Hag w) as [H1 H2]. split; f_equal.
        * rewrite <- H1. reflexivity.
        * rewrite <- H2. reflexivity.
      + intros t' Ht'. now rewrite (Hres t' Ht').
      + intros t' Ht'. rewrite Ht in Ht'. destruct Ht' as [<-|[]]. rewrite Hr, !map_map. reflexivity.
  Qed.

  Theorem forest_connects_serialisable : forall directed (h : heap) threads fuel sched,
    single_connects threads ->
    (forall t u v e, In t threads -> t = [CConnect K u v e] -> u < size h /\ v < size h) ->
    prune (length (thread_connects threads)) (thread_connects threads) = [] ->
    let c := fst (run_sched keqb directed fuel (init_config keqb directed h threads) sched []) in
    all_done c = true ->
    exists p, Permutation p (concat threads) /\
      let c' := fst (run_sched keqb directed (S (4 * length p)) (init_config keqb directed h [p]) [] []) in
      all_done c' = true /\
      forall w, outs (c_heap c) w = outs (c_heap c') w /\ ins (c_heap c) w = ins (c_heap c') w.
  Proof.
    intros directed h threads fuel sched Hsingle _ Hprune c Hdone.
    destruct (forest_connects_serialisable_strong directed h threads fuel sched _ (S (4 * length (concat threads)))
                Hsingle Hprune Hdone) as (p & Hp & Hrun).
    exists p. split; [exact Hp|].
    rewrite (Permutation_length Hp). destruct Hrun as (Hd & Heq & _); [rewrite (Permutation_length Hp); lia|].
    split; [exact Hd|exact Heq].
  Qed.
End ConcForest.

(* ------------------------------------------------------------------ *)
(* F. examples (K = V = E = nat)                                        *)
(* ------------------------------------------------------------------ *)
(* non-vacuity: three nodes, three threads with the connects 0->1, 0->2, 1->2.  out 0 is shared by the first two,
   in 2 by the last two: a path  in1 -- out0 -- in2 -- out1  in the list multigraph, no cycle *)
Definition heap3 : heap nat nat nat := fst (run_d Nat.eqb [ONew 5 0; ONew 3 0; ONew 4 0]).
Definition ex_threads : list (list (call nat nat)) :=
  [[CConnect nat 0 1 7]; [CConnect nat 0 2 8]; [CConnect nat 1 2 9]].
Definition ex_sched : list nat := [0; 1; 2; 2; 1; 0].
Definition ex_final : config nat nat nat :=
  fst (run_sched Nat.eqb true 100 (init_config Nat.eqb true heap3 ex_threads) ex_sched []).
Definition ex_serial (p : list (call nat nat)) : config nat nat nat :=
  fst (run_sched Nat.eqb true (S (4 * length p)) (init_config Nat.eqb true heap3 [p]) [] []).

Example ex_single : single_connects nat nat ex_threads.
Proof. intros t [<-|[<-|[<-|[]]]]; eauto. Qed.

Example ex_valid : forall t u v e, In t ex_threads -> t = [CConnect nat u v e] -> u < size heap3 /\ v < size heap3.
Proof.
  intros t u v e [<-|[<-|[<-|[]]]] Heq; inversion Heq; subst; split; vm_compute; lia.
Qed.

Example ex_prune : prune (length (thread_connects ex_threads)) (thread_connects ex_threads) = [].
Proof. vm_compute. reflexivity. Qed.

Example ex_done : all_done ex_final = true.
Proof. vm_compute. reflexivity. Qed.

(* the theorem applies to this scenario and this interleaved schedule ... *)
Example ex_instance :
  exists p, Permutation p (concat ex_threads) /\
    all_done (ex_serial p) = true /\
    forall w, outs (c_heap ex_final) w = outs (c_heap (ex_serial p)) w /\
              ins (c_heap ex_final) w = ins (c_heap (ex_serial p)) w.
Proof.
  exact (forest_connects_serialisable nat nat nat Nat.eqb true heap3 ex_threads 100 ex_sched
           ex_single ex_valid ex_prune ex_done).
Qed.

(* ... and concretely: the schedule orders out 0 as (0->1, 0->2) and in 2 as (1->2, 0->2); the sequential order
   0->1, 1->2, 0->2 explains it, the program order 0->1, 0->2, 1->2 does not *)
Example ex_concrete :
  outs (c_heap ex_final) 0 = [(1, 7); (2, 8)] /\ ins (c_heap ex_final) 2 = [(1, 9); (0, 8)] /\
  let p := [CConnect nat 0 1 7; CConnect nat 1 2 9; CConnect nat 0 2 8] in
  Permutation p (concat ex_threads) /\ all_done (ex_serial p) = true /\
  map (outs (c_heap ex_final)) [0; 1; 2] = map (outs (c_heap (ex_serial p))) [0; 1; 2] /\
  map (ins (c_heap ex_final)) [0; 1; 2] = map (ins (c_heap (ex_serial p))) [0; 1; 2] /\
  ins (c_heap (ex_serial (concat ex_threads))) 2 <> ins (c_heap ex_final) 2.
Proof.
  split; [vm_compute; reflexivity|]. split; [vm_compute; reflexivity|]. cbv zeta.
  split; [cbn [concat ex_threads app]; apply perm_skip; apply perm_swap|].
  split; [vm_compute; reflexivity|]. split; [vm_compute; reflexivity|]. split; [vm_compute; reflexivity|].
  vm_compute. discriminate.
Qed.

(* the forest hypothesis matters: the four connects 0->0, 0->1, 1->1, 1->0 of ConcCycle use the four lists
   out 0, in 0, out 1, in 1 in a cycle; nothing is pruned, and the schedule cyc_sched ends in adjacency lists that
   no sequential order of the four calls produces *)
Definition cyc_serial (p : list (call nat nat)) : config nat nat nat :=
  fst (run_sched Nat.eqb true (S (4 * length p)) (init_config Nat.eqb true heap2 [p]) [] []).

Lemma cyc_serial_all' :
  forallb (fun q => negb (graph_eqb (graph_of (cyc_serial q)) cyc_final)) (perms cyc_calls) = true.
Proof. vm_compute. reflexivity. Qed.

Theorem forest_hypothesis_needed :
  single_connects nat nat cyc_progs /\
  prune (length (thread_connects cyc_progs)) (thread_connects cyc_progs) = thread_connects cyc_progs /\
  thread_connects cyc_progs <> [] /\
  let c := fst (run_sched Nat.eqb true 100 (init_config Nat.eqb true heap2 cyc_progs) cyc_sched []) in
  all_done c = true /\
  forall p, Permutation p (concat cyc_progs) ->
    let c' := fst (run_sched Nat.eqb true (S (4 * length p)) (init_config Nat.eqb true heap2 [p]) [] []) in
    ~ (forall w, outs (c_heap c) w = outs (c_heap c') w /\ ins (c_heap c) w = ins (c_heap c') w).
Proof.
  split; [intros t [<-|[<-|[<-|[<-|[]]]]]; eauto|]. split; [vm_compute; reflexivity|].
  split; [vm_compute; discriminate|]. cbv zeta. split; [vm_compute; reflexivity|].
  intros p Hp Heq.
  assert (Hin : In p (perms cyc_calls)) by (apply perms_complete; apply Permutation_sym; exact Hp).
  pose proof cyc_serial_all' as Hall. rewrite forallb_forall in Hall. specialize (Hall p Hin). cbv beta in Hall.
  apply negb_true_iff, graph_eqb_neq in Hall. apply Hall.
  unfold cyc_final, graph_of, cyc_serial, run_n.
  destruct (Heq 0) as [H0o H0i]. destruct (Heq 1) as [H1o H1i].
  now rewrite <- H0o, <- H0i, <- H1o, <- H1i.
Qed.

Print Assumptions forest_order.
Print Assumptions forest_connects_serialisable_strong.
Print Assumptions forest_connects_serialisable.
Print Assumptions ex_instance.
Print Assumptions ex_concrete.
Print Assumptions forest_hypothesis_needed.
