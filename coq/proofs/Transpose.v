(* Transpose.v — the traversal machines of model/Search.v depend on the heap only through the
   node table and the adjacency function of the chosen direction; hence `transpose()`
   (direction DIn) searches the edge-reversed graph (C08), and without transpose() no incoming
   edge influences the result. *)
From Gdsl.Model Require Import Base NodeOps Search Callback.
From Coq Require Import Lia.

Set Implicit Arguments.

Section Transpose.
  Variables K V E : Type.
  Variable keqb : K -> K -> bool.

  Definition rev_heap (h : heap K V E) : heap K V E := mkHeap (nodes h) (ins h) (outs h).

  (* two heaps look the same to a traversal in directions d / d' *)
  Definition HeapSim (d d' : dir) (h h' : heap K V E) : Prop :=
    nodes h = nodes h' /\ forall u, adj_of h d u = adj_of h' d' u.

  (* the callback is pure on both heaps and behaves identically on them *)
  Definition CbAgree (CB : Type) (cb : CB -> heap K V E -> edge E -> CB * heap K V E * bool)
             (h h' : heap K V E) : Prop :=
    forall c e, snd (fst (cb c h e)) = h /\ snd (fst (cb c h' e)) = h' /\
                fst (fst (cb c h e)) = fst (fst (cb c h' e)) /\ snd (cb c h e) = snd (cb c h' e).

  (* observable part of a machine state: everything except the heap *)
  Definition obs (CB : Type) (st : sst K V E CB) := (s_cb st, s_vis st, s_tree st).

  (* ---------------- functions that read only the node table ---------------- *)
  Section NodesOnly.
    Variables h h' : heap K V E.
    Hypothesis Hn : nodes h = nodes h'.

    Lemma keyof_nodes v : keyof h v = keyof h' v.
    Proof. unfold keyof. now rewrite Hn. Qed.

    Lemma valof_nodes v : valof h v = valof h' v.
    Proof. unfold valof. now rewrite Hn. Qed.

    Lemma has_key_nodes k w : has_key keqb h k w = has_key keqb h' k w.
    Proof. unfold has_key. now rewrite keyof_nodes. Qed.

    Lemma same_key_nodes u w : same_key keqb h u w = same_key keqb h' u w.
    Proof.
      unfold same_key. rewrite keyof_nodes. destruct (keyof h' u) as [k|]; [|reflexivity].
      apply has_key_nodes.
    Qed.

    Lemma in_vis_nodes vis v : in_vis keqb h vis v = in_vis keqb h' vis v.
    Proof. unfold in_vis. now rewrite keyof_nodes. Qed.

    Lemma mark_nodes vis v : mark h vis v = mark h' vis v.
    Proof. unfold mark. now rewrite keyof_nodes. Qed.

    Lemma is_target_nodes t v : is_target keqb h t v = is_target keqb h' t v.
    Proof. unfold is_target. destruct t as [k|]; [apply has_key_nodes|reflexivity]. Qed.

    Lemma node_le_nodes (vleb : V -> V -> bool) a b : node_le vleb h a b = node_le vleb h' a b.
    Proof. unfold node_le. now rewrite !valof_nodes. Qed.

    Lemma pq_le_nodes (vleb : V -> V -> bool) m a b : pq_le vleb h m a b = pq_le vleb h' m a b.
    Proof. unfold pq_le. destruct m; apply node_le_nodes. Qed.

    Lemma bt_scan_nodes rest : forall cur acc,
      bt_scan keqb h cur acc rest = bt_scan keqb h' cur acc rest.
    Proof.
      induction rest as [|e r IH]; intros cur acc; cbn [bt_scan]; [reflexivity|].
      unfold same_key_id. rewrite same_key_nodes, !IH. reflexivity.
    Qed.

    Lemma backtrack_nodes tree : backtrack keqb h tree = backtrack keqb h' tree.
    Proof.
      unfold backtrack. destruct (rev tree) as [|w before]; [reflexivity|].
      now rewrite bt_scan_nodes.
    Qed.

    Lemma eval_pred_nodes (pred : K -> K -> E -> bool) e : eval_pred pred h e = eval_pred pred h' e.
    Proof. unfold eval_pred. now rewrite !keyof_nodes. Qed.
  End NodesOnly.

  (* ---------------- StdHeap depends on `le` only pointwise ---------------- *)
  Section HeapExt.
    Variables le le' : nat -> nat -> bool.
    Hypothesis Hle : forall a b, le a b = le' a b.

    Lemma sift_up_ext fuel : forall data start pos x,
      sift_up le fuel data start pos x = sift_up le' fuel data start pos x.
    Proof.
      induction fuel as [|f IH]; intros data start pos x; cbn [sift_up]; [reflexivity|].
      rewrite Hle. destruct (Nat.ltb start pos); [|reflexivity].
      destruct (le' x (getn data (Nat.div2 (pos - 1)))); [reflexivity|apply IH].
    Qed.

    Lemma sift_down_hole_ext fuel : forall data hole,
      sift_down_hole le fuel data hole = sift_down_hole le' fuel data hole.
    Proof.
      induction fuel as [|f IH]; intros data hole; cbn [sift_down_hole]; [reflexivity|].
      rewrite Hle. destruct (Nat.leb (2 * hole + 1) (length data - 2)); [apply IH|reflexivity].
    Qed.

    Lemma heap_push_ext data x : heap_push le data x = heap_push le' data x.
    Proof. unfold heap_push. apply sift_up_ext. Qed.

    Lemma heap_pop_ext data : heap_pop le data = heap_pop le' data.
    Proof.
      unfold heap_pop. destruct (rev data) as [|last rrest]; [reflexivity|].
      destruct (rev rrest) as [|top rest]; [reflexivity|].
      rewrite sift_down_hole_ext.
      destruct (sift_down_hole le' (S (length (setn (top :: rest) 0 last))) (setn (top :: rest) 0 last) 0)
        as [data2 pos].
      now rewrite sift_up_ext.
    Qed.
  End HeapExt.

  (* ---------------- the iterator by position reads only adj_of ---------------- *)
  Lemma adj_at_nth (g : heap K V E) u pos : adj_at g u pos = nth_error (outs g u ++ ins g u) pos.
  Proof.
    unfold adj_at. destruct (nth_error (outs g u) pos) as [x|] eqn:Hx.
    - symmetry. rewrite nth_error_app1; auto. apply nth_error_Some. congruence.
    - apply nth_error_None in Hx. now rewrite nth_error_app2.
  Qed.

  Lemma edge_at_nth (g : heap K V E) dd u pos :
    edge_at g dd u pos = option_map (fun p => (u, fst p, snd p)) (nth_error (adj_of g dd u) pos).
  Proof. destruct dd; cbn [edge_at adj_of]; try reflexivity. now rewrite adj_at_nth. Qed.

  (* ---------------- simulation of the machines ---------------- *)
  Section Sim.
    Variable CB : Type.
    Variable cb : CB -> heap K V E -> edge E -> CB * heap K V E * bool.
    Variables d d' : dir.
    Variables h h' : heap K V E.
    Hypothesis HS : HeapSim d d' h h'.
    Hypothesis HC : CbAgree cb h h'.

    Notation sst := (sst K V E CB).

    Definition StSim (st st' : sst) : Prop :=
      obs st = obs st' /\ s_heap st = h /\ s_heap st' = h'.

    Definition R2 (x y : sst * status) : Prop := StSim (fst x) (fst y) /\ snd x = snd y.

    Lemma sim_nodes : nodes h = nodes h'.
    Proof. exact (proj1 HS). Qed.

    Lemma stsim_mk c vis tree : StSim (mkS h c vis tree) (mkS h' c vis tree).
    Proof. unfold StSim, obs. cbn. auto. Qed.

    Lemma stsim_inv st st' : StSim st st' ->
      exists c vis tree, st = mkS h c vis tree /\ st' = mkS h' c vis tree.
    Proof.
      destruct st as [g c vis tree], st' as [g' c' vis' tree']. unfold StSim, obs. cbn.
      intros (Ho & -> & ->). inversion Ho; subst. eauto.
    Qed.

    Lemma push_tree_sim st st' e : StSim st st' -> StSim (push_tree st e) (push_tree st' e).
    Proof.
      intros Hst. destruct (stsim_inv Hst) as (c & vis & tree & -> & ->).
      unfold push_tree. cbn. apply stsim_mk.
    Qed.

    Lemma edge_at_sim u pos : edge_at h d u pos = edge_at h' d' u pos.
    Proof. rewrite !edge_at_nth. destruct HS as [_ Ha]. now rewrite Ha. Qed.

    Lemma call_cb_sim c vis tree e : exists c1 ok,
      call_cb cb (mkS h c vis tree) e = (mkS h c1 vis tree, ok) /\
      call_cb cb (mkS h' c vis tree) e = (mkS h' c1 vis tree, ok).
    Proof.
      unfold call_cb. cbn [s_heap s_cb s_vis s_tree].
      destruct (HC c e) as (H1 & H2 & H3 & H4).
      destruct (cb c h e) as [[c1 h1] ok], (cb c h' e) as [[c1' h1'] ok'].
      cbn in H1, H2, H3, H4. subst. eauto.
    Qed.

    Section WL.
      Variable Q : Type.
      Variables qpush qpush' : Q -> nat -> Q.
      Variables qpop qpop' : Q -> option (nat * Q).
      Hypothesis Hpush : forall q x, qpush q x = qpush' q x.
      Hypothesis Hpop : forall q, qpop q = qpop' q.
      Variable target : option K.

      Definition R3 (x y : sst * Q * status) : Prop :=
        StSim (fst (fst x)) (fst (fst y)) /\ snd (fst x) = snd (fst y) /\ snd x = snd y.

      Lemma wl_scan_sim fuel : forall st st' q u pos, StSim st st' ->
        R3 (wl_scan keqb cb qpush d target fuel st q u pos)
           (wl_scan keqb cb qpush' d' target fuel st' q u pos).
      Proof.
        induction fuel as [|f IH]; intros st st' q u pos Hst.
        - cbn. split; [exact Hst|split; reflexivity].
        - destruct (stsim_inv Hst) as (c & vis & tree & -> & ->).
          cbn [wl_scan s_heap]. rewrite edge_at_sim.
          destruct (edge_at h' d' u pos) as [e|]; [|split; [apply stsim_mk|split; reflexivity]].
          destruct (call_cb_sim c vis tree e) as (c1 & ok & E1 & E2). rewrite E1, E2.
          cbn [s_heap s_vis]. rewrite (in_vis_nodes h h' sim_nodes).
          destruct (ok && negb (in_vis keqb h' vis (edst e))); [|apply IH, stsim_mk].
          unfold discover. cbn [s_heap s_vis s_cb s_tree].
          rewrite (mark_nodes h h' sim_nodes), (is_target_nodes h h' sim_nodes).
          destruct (is_target keqb h' target (edst e)).
          + split; [apply stsim_mk|split; reflexivity].
          + rewrite Hpush. apply IH, stsim_mk.
      Qed.

      Lemma wl_loop_sim fuel : forall st st' q, StSim st st' ->
        R2 (wl_loop keqb cb qpush qpop d target fuel st q)
           (wl_loop keqb cb qpush' qpop' d' target fuel st' q).
      Proof.
        induction fuel as [|f IH]; intros st st' q Hst.
        - split; auto.
        - cbn [wl_loop]. rewrite Hpop. destruct (qpop' q) as [[u q']|]; [|split; auto].
          generalize (wl_scan_sim (S f) q' u 0 Hst).
          destruct (wl_scan keqb cb qpush d target (S f) st q' u 0) as [[st1 q1] r1].
          destruct (wl_scan keqb cb qpush' d' target (S f) st' q' u 0) as [[st1' q1'] r1'].
          intros (H1 & H2 & H3). cbn in H1, H2, H3. subst q1' r1'.
          destruct r1; [split; [exact H1|reflexivity] | apply IH; exact H1 | split; [exact H1|reflexivity]].
      Qed.
    End WL.

    Lemma descend_sim target post fuel : forall st st' u pos, StSim st st' ->
      R2 (descend keqb cb d target post fuel st u pos)
         (descend keqb cb d' target post fuel st' u pos).
    Proof.
      induction fuel as [|f IH]; intros st st' u pos Hst.
      - split; auto.
      - destruct (stsim_inv Hst) as (c & vis & tree & -> & ->).
        cbn [descend s_heap]. rewrite edge_at_sim.
        destruct (edge_at h' d' u pos) as [e|]; [|split; auto].
        destruct (call_cb_sim c vis tree e) as (c1 & ok & E1 & E2). rewrite E1, E2.
        cbn [s_heap s_vis]. rewrite (in_vis_nodes h h' sim_nodes).
        destruct (ok && negb (in_vis keqb h' vis (edst e))); [|apply IH, stsim_mk].
        unfold discover. cbn [s_heap s_vis s_cb s_tree].
        rewrite (mark_nodes h h' sim_nodes), (is_target_nodes h h' sim_nodes).
        destruct (is_target keqb h' target (edst e)); [split; [apply stsim_mk|reflexivity]|].
        match goal with
        | |- R2 (match ?a with _ => _ end) (match ?b with _ => _ end) =>
            assert (Hr : R2 a b) by (apply IH, stsim_mk); revert Hr;
            destruct a as [st3 r3], b as [st3' r3']
        end.
        intros [H1 H2]. cbn in H1, H2. subst r3'.
        destruct r3; [split; [exact H1|reflexivity] | | split; [exact H1|reflexivity]].
        apply IH. destruct post; [apply push_tree_sim|]; exact H1.
    Qed.

    Lemma run_search_stsim (vleb : V -> V -> bool) k fuel c root target cyc :
      R2 (run_search keqb cb vleb k d fuel h c root target cyc)
         (run_search keqb cb vleb k d' fuel h' c root target cyc).
    Proof.
      unfold run_search, init_st. rewrite (keyof_nodes h h' sim_nodes), (mark_nodes h h' sim_nodes).
      destruct k.
      - apply wl_loop_sim; auto using stsim_mk.
      - apply descend_sim, stsim_mk.
      - apply wl_loop_sim; [| |apply stsim_mk].
        + intros q x. apply heap_push_ext. intros a b. apply pq_le_nodes, sim_nodes.
        + intros q. apply heap_pop_ext. intros a b. apply pq_le_nodes, sim_nodes.
      - apply wl_loop_sim; [| |apply stsim_mk].
        + intros q x. apply heap_push_ext. intros a b. apply pq_le_nodes, sim_nodes.
        + intros q. apply heap_pop_ext. intros a b. apply pq_le_nodes, sim_nodes.
    Qed.

    Lemma stsim_obs st st' : StSim st st' -> obs st = obs st'.
    Proof. now intros [Ho _]. Qed.

    Lemma search_find_stsim (vleb : V -> V -> bool) k fuel c root target :
      obs (fst (search_find keqb cb vleb k d fuel h c root target)) =
      obs (fst (search_find keqb cb vleb k d' fuel h' c root target)) /\
      snd (search_find keqb cb vleb k d fuel h c root target) =
      snd (search_find keqb cb vleb k d' fuel h' c root target).
    Proof.
      unfold search_find. generalize (run_search_stsim vleb k fuel c root target false).
      destruct (run_search keqb cb vleb k d fuel h c root target false) as [st r].
      destruct (run_search keqb cb vleb k d' fuel h' c root target false) as [st' r'].
      intros [H1 H2]. cbn in H1, H2. subst r'. apply stsim_obs in H1.
      destruct r; cbn; auto.
    Qed.

    Lemma search_path_stsim (vleb : V -> V -> bool) k fuel c root target cyc :
      obs (fst (search_path keqb cb vleb k d fuel h c root target cyc)) =
      obs (fst (search_path keqb cb vleb k d' fuel h' c root target cyc)) /\
      snd (search_path keqb cb vleb k d fuel h c root target cyc) =
      snd (search_path keqb cb vleb k d' fuel h' c root target cyc).
    Proof.
      unfold search_path. generalize (run_search_stsim vleb k fuel c root target cyc).
      destruct (run_search keqb cb vleb k d fuel h c root target cyc) as [st r].
      destruct (run_search keqb cb vleb k d' fuel h' c root target cyc) as [st' r'].
      intros [H1 H2]. cbn in H1, H2. subst r'.
      destruct (stsim_inv H1) as (c1 & vis & tree & -> & ->).
      destruct r; cbn [s_heap s_tree]; auto.
      rewrite (backtrack_nodes h h' sim_nodes).
      destruct (backtrack keqb h' tree); cbn; auto.
    Qed.

    Lemma order_edges_stsim post fuel c root :
      obs (fst (order_edges keqb cb d post fuel h c root)) =
      obs (fst (order_edges keqb cb d' post fuel h' c root)) /\
      snd (order_edges keqb cb d post fuel h c root) =
      snd (order_edges keqb cb d' post fuel h' c root).
    Proof.
      unfold order_edges, init_st. rewrite (mark_nodes h h' sim_nodes).
      generalize (@descend_sim None post fuel _ _ root 0 (stsim_mk c (mark h' [] root) [])).
      destruct (descend keqb cb d None post fuel (mkS h c (mark h' [] root) []) root 0) as [st r].
      destruct (descend keqb cb d' None post fuel (mkS h' c (mark h' [] root) []) root 0) as [st' r'].
      intros [H1 H2]. cbn in H1, H2. subst r'.
      destruct (stsim_inv H1) as (c1 & vis & tree & -> & ->).
      destruct r; cbn; auto.
    Qed.

    Lemma order_nodes_stsim post fuel c root :
      obs (fst (order_nodes keqb cb d post fuel h c root)) =
      obs (fst (order_nodes keqb cb d' post fuel h' c root)) /\
      snd (order_nodes keqb cb d post fuel h c root) =
      snd (order_nodes keqb cb d' post fuel h' c root).
    Proof.
      unfold order_nodes. generalize (order_edges_stsim post fuel c root).
      destruct (order_edges keqb cb d post fuel h c root) as [st r].
      destruct (order_edges keqb cb d' post fuel h' c root) as [st' r'].
      intros [H1 H2]. cbn in H1, H2. subst r'.
      destruct r; cbn; auto.
    Qed.
  End Sim.

  (* ================= final theorems ================= *)
  Variable CB : Type.
  Variable cb : CB -> heap K V E -> edge E -> CB * heap K V E * bool.
  Variable vleb : V -> V -> bool.

  Theorem run_search_sim : forall d d' h h' k fuel c root target cyc,
    HeapSim d d' h h' -> CbAgree cb h h' ->
    obs (fst (run_search keqb cb vleb k d fuel h c root target cyc)) =
    obs (fst (run_search keqb cb vleb k d' fuel h' c root target cyc)) /\
    snd (run_search keqb cb vleb k d fuel h c root target cyc) =
    snd (run_search keqb cb vleb k d' fuel h' c root target cyc).
  Proof.
    intros d d' h h' k fuel c root target cyc HS HC.
    destruct (run_search_stsim HS HC vleb k fuel c root target cyc) as [[H1 _] H2]. auto.
  Qed.

  Theorem search_path_sim : forall d d' h h' k fuel c root target cyc,
    HeapSim d d' h h' -> CbAgree cb h h' ->
    obs (fst (search_path keqb cb vleb k d fuel h c root target cyc)) =
    obs (fst (search_path keqb cb vleb k d' fuel h' c root target cyc)) /\
    snd (search_path keqb cb vleb k d fuel h c root target cyc) =
    snd (search_path keqb cb vleb k d' fuel h' c root target cyc).
  Proof. intros. now apply search_path_stsim. Qed.

  Theorem search_find_sim : forall d d' h h' k fuel c root target,
    HeapSim d d' h h' -> CbAgree cb h h' ->
    obs (fst (search_find keqb cb vleb k d fuel h c root target)) =
    obs (fst (search_find keqb cb vleb k d' fuel h' c root target)) /\
    snd (search_find keqb cb vleb k d fuel h c root target) =
    snd (search_find keqb cb vleb k d' fuel h' c root target).
  Proof. intros. now apply search_find_stsim. Qed.

  Theorem order_sim : forall d d' h h' post fuel c root,
    HeapSim d d' h h' -> CbAgree cb h h' ->
    (obs (fst (order_edges keqb cb d post fuel h c root)) =
     obs (fst (order_edges keqb cb d' post fuel h' c root)) /\
     snd (order_edges keqb cb d post fuel h c root) =
     snd (order_edges keqb cb d' post fuel h' c root)) /\
    (obs (fst (order_nodes keqb cb d post fuel h c root)) =
     obs (fst (order_nodes keqb cb d' post fuel h' c root)) /\
     snd (order_nodes keqb cb d post fuel h c root) =
     snd (order_nodes keqb cb d' post fuel h' c root)).
  Proof.
    intros d d' h h' post fuel c root HS HC. split.
    - now apply order_edges_stsim.
    - now apply order_nodes_stsim.
  Qed.

  (* ---- transpose() = DIn searches the edge-reversed graph ---- *)
  Theorem transpose_is_reverse : forall h : heap K V E,
    HeapSim DIn DOut h (rev_heap h) /\ HeapSim DOut DIn h (rev_heap h).
  Proof. intros h. split; split; reflexivity. Qed.

  Theorem transposed_search_path : forall h k fuel c root target cyc,
    CbAgree cb h (rev_heap h) ->
    snd (search_path keqb cb vleb k DIn fuel h c root target cyc) =
    snd (search_path keqb cb vleb k DOut fuel (rev_heap h) c root target cyc).
  Proof.
    intros h k fuel c root target cyc HC.
    apply search_path_sim; auto. apply transpose_is_reverse.
  Qed.

  Theorem transposed_search_find : forall h k fuel c root target,
    CbAgree cb h (rev_heap h) ->
    snd (search_find keqb cb vleb k DIn fuel h c root target) =
    snd (search_find keqb cb vleb k DOut fuel (rev_heap h) c root target).
  Proof.
    intros h k fuel c root target HC.
    apply search_find_sim; auto. apply transpose_is_reverse.
  Qed.

  Theorem transposed_order_edges : forall h post fuel c root,
    CbAgree cb h (rev_heap h) ->
    snd (order_edges keqb cb DIn post fuel h c root) =
    snd (order_edges keqb cb DOut post fuel (rev_heap h) c root).
  Proof.
    intros h post fuel c root HC.
    apply (order_sim post fuel c root (proj1 (transpose_is_reverse h)) HC).
  Qed.

  Theorem transposed_order_nodes : forall h post fuel c root,
    CbAgree cb h (rev_heap h) ->
    snd (order_nodes keqb cb DIn post fuel h c root) =
    snd (order_nodes keqb cb DOut post fuel (rev_heap h) c root).
  Proof.
    intros h post fuel c root HC.
    apply (order_sim post fuel c root (proj1 (transpose_is_reverse h)) HC).
  Qed.

  (* ---- without transpose() no incoming edge influences the result ---- *)
  Theorem untransposed_ignores_ins : forall h h' : heap K V E,
    nodes h = nodes h' -> (forall u, outs h u = outs h' u) -> HeapSim DOut DOut h h'.
  Proof. intros h h' Hnodes Ho. split; [exact Hnodes|exact Ho]. Qed.

  Theorem untransposed_search_path : forall h h' k fuel c root target cyc,
    nodes h = nodes h' -> (forall u, outs h u = outs h' u) -> CbAgree cb h h' ->
    snd (search_path keqb cb vleb k DOut fuel h c root target cyc) =
    snd (search_path keqb cb vleb k DOut fuel h' c root target cyc).
  Proof.
    intros h h' k fuel c root target cyc Hnodes Ho HC.
    apply search_path_sim; auto. now apply untransposed_ignores_ins.
  Qed.

  Theorem untransposed_search_find : forall h h' k fuel c root target,
    nodes h = nodes h' -> (forall u, outs h u = outs h' u) -> CbAgree cb h h' ->
    snd (search_find keqb cb vleb k DOut fuel h c root target) =
    snd (search_find keqb cb vleb k DOut fuel h' c root target).
  Proof.
    intros h h' k fuel c root target Hnodes Ho HC.
    apply search_find_sim; auto. now apply untransposed_ignores_ins.
  Qed.

  (* ---- the concrete callbacks of Callback.v with an empty script ---- *)
  Theorem mk_cb_agree : forall (step : heap K V E -> op K V E -> heap K V E * outcome E)
      is_filter pred h h',
    nodes h = nodes h' -> CbAgree (mk_cb step is_filter pred []) h h'.
  Proof.
    intros step is_filter pred h h' Hnodes c e.
    unfold mk_cb. cbn [script_at run_ops fst snd].
    repeat split. destruct is_filter; [|reflexivity]. now apply eval_pred_nodes.
  Qed.
End Transpose.

Print Assumptions run_search_sim.
Print Assumptions search_path_sim.
Print Assumptions search_find_sim.
Print Assumptions order_sim.
Print Assumptions transpose_is_reverse.
Print Assumptions transposed_search_path.
Print Assumptions transposed_search_find.
Print Assumptions transposed_order_edges.
Print Assumptions transposed_order_nodes.
Print Assumptions untransposed_ignores_ins.
Print Assumptions untransposed_search_path.
Print Assumptions untransposed_search_find.
Print Assumptions mk_cb_agree.
