(* Extraction of the executable model to OCaml.  Only ExtrOcamlBasic is used:
   nat, positive, N, Z stay as extracted inductives; no Extract Constant /
   Extract Inductive directives of our own. *)
Require Import Coq.extraction.Extraction Coq.extraction.ExtrOcamlBasic.
From Gdsl.Model Require Import Base NodeOps Search SearchFind Callback Container Scc Serde Macro Own Conc ConcClass EdgeCmp PathApi.
Extraction Language OCaml.
Set Extraction KeepSingleton.
Extraction "model.ml"
  NodeOps.step_d NodeOps.step_u NodeOps.run_from NodeOps.empty_heap
  NodeOps.keyof NodeOps.valof NodeOps.size
  NodeOps.find_outbound NodeOps.find_inbound NodeOps.find_adjacent
  NodeOps.is_connected_d NodeOps.is_connected_u
  NodeOps.out_degree NodeOps.in_degree NodeOps.degree_u
  NodeOps.is_root NodeOps.is_leaf NodeOps.is_orphan NodeOps.adj_u
  SearchFind.search_find' Search.search_path Search.order_nodes Search.order_edges Search.edge_loop
  Search.node_eqb Search.node_cmp Search.path_nodes Search.heap_push Search.heap_pop
  Callback.mk_cb Callback.cb0
  Container.g_get Container.g_contains Container.g_insert Container.g_remove Container.g_len Container.g_is_empty
  Container.order_okb Container.g_iter Container.g_roots Container.g_leaves Container.g_orphans Container.g_to_dot Container.g_to_dot_attr
  Macro.macro_build
  PathApi.p_len PathApi.p_first_edge PathApi.p_last_edge PathApi.p_first_node PathApi.p_last_node PathApi.p_index PathApi.p_to_vec_edges PathApi.p_iter_nodes
  ConcClass.known_class
  EdgeCmp.edge_eqb_d EdgeCmp.edge_eqb_u EdgeCmp.edge_cmp EdgeCmp.edge_reverse
  Conc.init_config Conc.run_sched Conc.explore Conc.cstep Conc.prog_of
  Own.o_init Own.o_new Own.astep Own.is_released Own.strong
  Scc.scc Serde.decompose Serde.rebuild Serde.deserialize
  Z.leb
  N.eqb N.of_nat N.to_nat Z.eqb Z.compare N.compare.
