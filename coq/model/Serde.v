(* Serde.v — graph_serde.rs: Serialize = decompose into (nodes, edges); Deserialize = visitor that
   rebuilds the graph.  The wire codecs (serde_json, serde_cbor) are not modelled: documents are
   value trees.  Definitions only. *)
From Gdsl.Model Require Export Base NodeOps Search Container.

Set Implicit Arguments.

Section Serde.
  Variables K V E : Type.
  Variable keqb : K -> K -> bool.
  Notation heap := (heap K V E).

  (* graph_serde_decompose: for every member in container order its (key, value), and for every edge
     its node iterates first — outgoing edges (directed) / the half-edges it created (undirected) —
     (source key, target key, value) *)
  Definition key_or (h : heap) (u : nat) (dflt : K) : K := match keyof h u with Some k => k | None => dflt end.

  Definition decompose (h : heap) (g : graph K) (order : list K)
    : list (K * V) * list (K * K * E) :=
    let ms := g_iter keqb g order in
    (flat_map (fun u => match nth_error (nodes h) u with Some kv => [kv] | None => [] end) ms,
     flat_map (fun u => match keyof h u with
                        | Some ku => flat_map (fun p => match keyof h (fst p) with
                                                        | Some kv => [(ku, kv, snd p)]
                                                        | None => [] end) (outs h u)
                        | None => [] end) ms).

  (* visit_seq after both lists were read: insert Node::new(k,v) for every listed node (a repeated key
     is ignored by insert), then connect every listed edge; an edge naming an unknown key is an error
     (the source is looked up first) *)
  Fixpoint rebuild_nodes (h : heap) (g : graph K) (l : list (K * V)) : heap * graph K :=
    match l with
    | [] => (h, g)
    | (k, v) :: r =>
        if g_contains keqb g k then rebuild_nodes h g r
        else rebuild_nodes (alloc h k v) (g ++ [(k, size h)]) r
    end.

  Inductive de_result := DeOk (h : heap) (g : graph K) | DeMissing (k : K).

  Fixpoint rebuild_edges (h : heap) (g : graph K) (l : list (K * K * E)) : de_result :=
    match l with
    | [] => DeOk h g
    | (ku, kv, e) :: r =>
        match g_get keqb g ku with
        | None => DeMissing ku
        | Some u =>
            match g_get keqb g kv with
            | None => DeMissing kv
            | Some v => rebuild_edges (connect h u v e) g r
            end
        end
    end.

  Definition rebuild (nodes : list (K * V)) (edges : list (K * K * E)) : de_result :=
    let (h, g) := rebuild_nodes empty_heap [] nodes in rebuild_edges h g edges.

  (* ---------------- documents as value trees ---------------- *)
  Inductive value :=
  | VNull | VBool (b : bool) | VInt (z : Z) | VOther (* float / string / bytes *)
  | VSeq (l : list value) | VMap (l : list (value * value)).

  Variable dec_k : value -> option K.
  Variable dec_v : value -> option V.
  Variable dec_e : value -> option E.

  Fixpoint all_some {A B} (f : A -> option B) (l : list A) : option (list B) :=
    match l with
    | [] => Some []
    | x :: r => match f x, all_some f r with Some y, Some ys => Some (y :: ys) | _, _ => None end
    end.

  Definition dec_node (x : value) : option (K * V) :=
    match x with
    | VSeq [a; b] => match dec_k a, dec_v b with Some k, Some v => Some (k, v) | _, _ => None end
    | _ => None
    end.
  Definition dec_edge (x : value) : option (K * K * E) :=
    match x with
    | VSeq [a; b; c] => match dec_k a, dec_k b, dec_e c with Some s, Some t, Some e => Some (s, t, e) | _, _, _ => None end
    | _ => None
    end.
  Definition dec_list {A} (f : value -> option A) (x : value) : option (list A) :=
    match x with VSeq l => all_some f l | _ => None end.

  (* deserialize_seq + visit_seq: a sequence of at most two elements; a missing element is an empty list *)
  Definition decode_doc (doc : value) : option (list (K * V) * list (K * K * E)) :=
    match doc with
    | VSeq [] => Some ([], [])
    | VSeq [ns] => match dec_list dec_node ns with Some n => Some (n, []) | None => None end
    | VSeq [ns; es] =>
        match dec_list dec_node ns, dec_list dec_edge es with
        | Some n, Some e => Some (n, e)
        | _, _ => None
        end
    | _ => None
    end.

  Inductive de_outcome := DOk (h : heap) (g : graph K) | DErr.

  Definition deserialize (doc : value) : de_outcome :=
    match decode_doc doc with
    | None => DErr
    | Some (n, e) => match rebuild n e with DeOk h g => DOk h g | DeMissing _ => DErr end
    end.
End Serde.
