(* Container.v — Graph<K,N,E> (src/*/mod.rs): a hash map key -> node.  The map's iteration order is
   not modelled: every order-dependent function takes the observed order (a list of keys) as input.
   Definitions only. *)
From Gdsl.Model Require Export Base NodeOps Search.

Set Implicit Arguments.

Section Container.
  Variables K V E : Type.
  Variable keqb : K -> K -> bool.
  Notation heap := (heap K V E).

  (* bindings key -> allocation id; no key twice *)
  Definition graph := list (K * nat).
  Definition g_empty : graph := [].

  Definition g_get (g : graph) (k : K) : option nat :=
    option_map snd (find (fun p => keqb (fst p) k) g).
  Definition g_contains (g : graph) (k : K) : bool :=
    match g_get g k with Some _ => true | None => false end.
  (* insert(node): false and unchanged when the key is present *)
  Definition g_insert (h : heap) (g : graph) (u : nat) : graph * bool :=
    match keyof h u with
    | None => (g, false)
    | Some k => if g_contains g k then (g, false) else (g ++ [(k, u)], true)
    end.
  Definition g_remove (g : graph) (k : K) : graph * option nat :=
    (filter (fun p => negb (keqb (fst p) k)) g, g_get g k).
  Definition g_len (g : graph) : nat := length g.
  Definition g_is_empty (g : graph) : bool := match g with [] => true | _ => false end.

  (* decidable form of the hypothesis OrderOK of the container theorems (Spec.v): the observed iteration order lists
     every bound key exactly once.  The driver evaluates it on every observed order before using it. *)
  Fixpoint nodupb (l : list K) : bool :=
    match l with [] => true | x :: r => negb (existsb (keqb x) r) && nodupb r end.
  Definition order_okb (g : graph) (order : list K) : bool :=
    nodupb order && Nat.eqb (length order) (length g) && forallb (fun k => g_contains g k) order.

  (* members in the container's (observed) iteration order *)
  Definition g_iter (g : graph) (order : list K) : list nat :=
    flat_map (fun k => match g_get g k with Some u => [u] | None => [] end) order.

  Definition g_roots (h : heap) (g : graph) (order : list K) : list nat := filter (is_root h) (g_iter g order).
  Definition g_leaves (h : heap) (g : graph) (order : list K) : list nat := filter (is_leaf h) (g_iter g order).
  Definition g_orphans (h : heap) (g : graph) (order : list K) : list nat := filter (is_orphan h) (g_iter g order).

  (* ---------------- DOT export ---------------- *)
  Inductive dotstmt :=
  | GraphAttr (i : nat)                       (* i-th pair returned by gattr *)
  | NodeStmt (u : nat) (attrs : bool)         (* node line; attrs: nattr returned Some *)
  | EdgeStmt (u v : nat) (e : E) (attrs : bool).

  (* the edges a `for Edge(..) in node` loop yields: IntoIterator = iter_out (directed) / iter (undirected) *)
  Definition into_iter (directed : bool) (h : heap) (u : nat) : list (nat * E) :=
    if directed then outs h u else outs h u ++ ins h u.

  (* to_dot: per member its node line followed by its edge lines *)
  Definition g_to_dot (directed : bool) (h : heap) (g : graph) (order : list K) : list dotstmt :=
    flat_map (fun u => NodeStmt u false :: map (fun p => EdgeStmt u (fst p) (snd p) false) (into_iter directed h u))
             (g_iter g order).

  (* to_dot_with_attr: graph attributes, then all node lines, then all edge lines *)
  Definition g_to_dot_attr (directed : bool) (h : heap) (g : graph) (order : list K)
             (ngattr : nat) (nattr : nat -> bool) (eattr : nat -> nat -> E -> bool) : list dotstmt :=
    map GraphAttr (iota 0 ngattr) ++
    map (fun u => NodeStmt u (nattr u)) (g_iter g order) ++
    flat_map (fun u => map (fun p => EdgeStmt u (fst p) (snd p) (eattr u (fst p) (snd p))) (into_iter directed h u))
             (g_iter g order).
End Container.
