(* Base.v — small list/function utilities shared by the whole model.
   Definitions only (no proofs): the model must still run when a proof breaks. *)
From Coq Require Export List Arith Bool NArith ZArith.
Export ListNotations.

Set Implicit Arguments.

(* pointwise function update: the adjacency tables of the heap are functions id -> list *)
Definition upd {A : Type} (f : nat -> A) (u : nat) (x : A) : nat -> A :=
  fun w => if Nat.eqb w u then x else f w.

Section ListFns.
  Variables A B : Type.

  (* first entry (by a predicate on the FIRST component) *)
  Fixpoint find_first_p (p : A -> bool) (l : list (A * B)) : option (A * B) :=
    match l with
    | [] => None
    | x :: r => if p (fst x) then Some x else find_first_p p r
    end.

  (* remove the first entry satisfying p, keep the rest in order; return its payload *)
  Fixpoint remove_first_p (p : A -> bool) (l : list (A * B)) : option (B * list (A * B)) :=
    match l with
    | [] => None
    | x :: r =>
        if p (fst x) then Some (snd x, r)
        else match remove_first_p p r with
             | Some (b, r') => Some (b, x :: r')
             | None => None
             end
    end.

  Fixpoint memb (eqb : A -> A -> bool) (x : A) (l : list A) : bool :=
    match l with
    | [] => false
    | y :: r => if eqb y x then true else memb eqb x r
    end.
End ListFns.

(* per-neighbour view of an adjacency list: the edge values towards id v, in list order *)
Definition to_ {E : Type} (v : nat) (l : list (nat * E)) : list E :=
  map snd (filter (fun p => Nat.eqb (fst p) v) l).

Fixpoint iota (start n : nat) : list nat :=
  match n with 0 => [] | S m => start :: iota (S start) m end.
