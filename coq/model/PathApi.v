(* PathApi.v — the accessors of Path (src/*/node/algo/path.rs): len = edges + 1; first_node is the SOURCE of the first edge
   (the node the path starts at), last_node the TARGET of the last edge; iter_nodes walks positions (0: source of edge 0; p>0: target of edge p-1);
   Index<usize> panics out of range.  Definitions only. *)
From Gdsl.Model Require Export Base NodeOps Search.

Set Implicit Arguments.

Section PathApi.
  Variable E : Type.
  Notation edge := (edge E).

  Definition p_len (p : list edge) : nat := S (length p).
  Definition p_first_edge (p : list edge) : option edge := hd_error p.
  Definition p_last_edge (p : list edge) : option edge := hd_error (rev p).
  Definition p_first_node (p : list edge) : option nat := option_map (@esrc E) (p_first_edge p).
  Definition p_last_node (p : list edge) : option nat := option_map (@edst E) (p_last_edge p).
  Definition p_index (p : list edge) (i : nat) : option edge := nth_error p i.   (* None = the indexing panic *)
  Definition p_to_vec_edges (p : list edge) : list edge := p.

  (* PathNodeIterator::next at a position *)
  Definition p_node_at (p : list edge) (pos : nat) : option nat :=
    match pos with
    | 0 => option_map (@esrc E) (nth_error p 0)
    | S q => option_map (@edst E) (nth_error p q)
    end.
  Fixpoint p_iter_nodes_from (fuel : nat) (p : list edge) (pos : nat) : list nat :=
    match fuel with
    | 0 => []
    | S f => match p_node_at p pos with Some u => u :: p_iter_nodes_from f p (S pos) | None => [] end
    end.
  Definition p_iter_nodes (p : list edge) : list nat := p_iter_nodes_from (S (S (length p))) p 0.
End PathApi.
