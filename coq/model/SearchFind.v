(* SearchFind.v — the FIND loops behind `search()`, transcribed as their own machines.
   Definitions only.

   In the Rust code `search()` (returns the target node) and `search_path()` (returns a Path) do not share
   a loop: every algorithm file carries a second, hand-copied family of loops for `search()`:
     src/digraph/node/algo/bfs.rs   loop_outbound_find (166-188), loop_inbound_find (190-213)   [search: 52-63]
     src/digraph/node/algo/dfs.rs   recurse_outbound_find (172-198), recurse_inbound_find (200-227) [search: 52-63]
     src/ungraph/node/algo/bfs.rs   loop_adjacent_find (71-93)                                  [search: 95-103]
     src/ungraph/node/algo/dfs.rs   recurse_adjacent_find (74-100)                              [search: 102-110]
     src/digraph/node/algo/pfs.rs   search (177-180) = search_path().map(|path| path.last_node().unwrap().clone())
     src/ungraph/node/algo/pfs.rs   search (114-117)   likewise
   (sync_digraph / sync_ungraph: the same text.)
   Search.v models `search()` by `search_find`, which unfolds the machine of `search_path()`; here the find loops
   are written down on their own, statement by statement, so that their agreement with the path loops is a theorem
   (proofs/SearchFindProof.v) and not a definitional identity.

   The find loops have no `result: &mut Vec<Edge>` parameter: their state is heap, callback state and visited set. *)
From Gdsl.Model Require Export Base NodeOps Search PathApi.

Set Implicit Arguments.

Section SearchFind.
  Variables K V E : Type.
  Variable keqb : K -> K -> bool.
  Notation heap := (heap K V E).
  Notation edge := (edge E).

  Variable CB : Type.
  Variable cb : CB -> heap -> edge -> CB * heap * bool.

  (* the state of a find loop: (heap, callback state, `visited`) — there is no edge vector *)
  Record fstate := mkF { f_heap : heap; f_cb : CB; f_vis : list K }.

  (* self.method.exec(&edge) *)
  Definition call_cb_find (st : fstate) (e : edge) : fstate * bool :=
    match cb (f_cb st) (f_heap st) e with
    | (c1, h1, ok) => (mkF h1 c1 (f_vis st), ok)
    end.

  (* visited.insert(v.key().clone()) *)
  Definition visit_find (st : fstate) (v : nat) : fstate :=
    mkF (f_heap st) (f_cb st) (mark (f_heap st) (f_vis st) v).

  (* ---------------- bfs.rs: loop_outbound_find / loop_inbound_find / loop_adjacent_find ---------------- *)
  Section WorklistFind.
    Variable Q : Type.
    Variable qpush : Q -> nat -> Q.
    Variable qpop : Q -> option (nat * Q).
    Variable d : dir.
    Variable target : option K.

    (* for edge in node.iter_*() {            (DIn: let edge = edge.reverse();)
         if self.method.exec(&edge) {
           let Edge(_, v, _) = edge;
           if !visited.contains(v.key()) {
             visited.insert(v.key().clone());
             if let Some(ref t) = self.target { if v.key() == t { return Some(v); } }
             queue.push_back(v);
           } } } *)
    Fixpoint wl_scan_find (fuel : nat) (st : fstate) (q : Q) (u pos : nat) : fstate * Q * status :=
      match fuel with
      | 0 => (st, q, OutOfFuel)
      | S f =>
          match edge_at (f_heap st) d u pos with
          | None => (st, q, Exhausted)
          | Some e =>
              let (st1, ok) := call_cb_find st e in
              if ok then
                let v := edst e in
                if negb (in_vis keqb (f_heap st1) (f_vis st1) v) then
                  let st2 := visit_find st1 v in
                  if is_target keqb (f_heap st2) target v then (st2, q, Found v)
                  else wl_scan_find f st2 (qpush q v) u (S pos)
                else wl_scan_find f st1 q u (S pos)
              else wl_scan_find f st1 q u (S pos)
          end
      end.

    (* while let Some(node) = queue.pop_front() { for .. }   None *)
    Fixpoint wl_loop_find (fuel : nat) (st : fstate) (q : Q) : fstate * status :=
      match fuel with
      | 0 => (st, OutOfFuel)
      | S f =>
          match qpop q with
          | None => (st, Exhausted)
          | Some (u, q') =>
              match wl_scan_find fuel st q' u 0 with
              | (st1, q1, Exhausted) => wl_loop_find f st1 q1
              | (st1, _, r) => (st1, r)
              end
          end
      end.
  End WorklistFind.

  (* ---------------- dfs.rs: recurse_outbound_find / recurse_inbound_find / recurse_adjacent_find ---------------- *)
  Section DescendFind.
    Variable d : dir.
    Variable target : option K.

    (* if let Some(node) = queue.pop() {
         for edge in node.iter_*() {          (DIn: let edge = edge.reverse();)
           if self.method.exec(&edge) {
             let v = edge.target();
             if !visited.contains(v.key()) {
               visited.insert(v.key().clone());
               if let Some(ref t) = self.target { if v.key() == t { return Some(v.clone()); } }
               queue.push(v.clone());
               match self.recurse_*_find(visited, queue) { Some(t) => return Some(t), None => continue, }
             } } } }
       None
       `queue` is a stack whose only element at entry is the node pushed by the caller (the root, or v just above):
       the recursive call pops exactly what was pushed, so the call is `descend_find .. v 0`. *)
    Fixpoint descend_find (fuel : nat) (st : fstate) (u pos : nat) : fstate * status :=
      match fuel with
      | 0 => (st, OutOfFuel)
      | S f =>
          match edge_at (f_heap st) d u pos with
          | None => (st, Exhausted)
          | Some e =>
              let (st1, ok) := call_cb_find st e in
              if ok then
                let v := edst e in
                if negb (in_vis keqb (f_heap st1) (f_vis st1) v) then
                  let st2 := visit_find st1 v in
                  if is_target keqb (f_heap st2) target v then (st2, Found v)
                  else
                    match descend_find f st2 v 0 with
                    | (st3, Found t) => (st3, Found t)                  (* Some(t) => return Some(t) *)
                    | (st3, Exhausted) => descend_find f st3 u (S pos)  (* None => continue *)
                    | (st3, OutOfFuel) => (st3, OutOfFuel)
                    end
                else descend_find f st1 u (S pos)
              else descend_find f st1 u (S pos)
          end
      end.
  End DescendFind.

  (* ---------------- entry points ---------------- *)
  Variable vleb : V -> V -> bool.

  (* search(): queue.push(root); visited.insert(root.key().clone()); *)
  Definition init_find (h : heap) (c : CB) (root : nat) : fstate := mkF h c (mark h [] root).

  (* Option<Node> of the find loops *)
  Definition res_of_status (r : status) : sresult E :=
    match r with Found v => RNode E v | Exhausted => RNone E | OutOfFuel => RFuel E end.

  (* the observable final state in the vocabulary of Search.v; `search()` of bfs/dfs owns no edge vector *)
  Definition sst_of_find (st : fstate) : sst K V E CB := mkS (f_heap st) (f_cb st) (f_vis st) [].

  (* pfs.rs: self.search_path().map(|path| path.last_node().unwrap().clone()) *)
  Definition map_last_node (x : sst K V E CB * sresult E) : sst K V E CB * sresult E :=
    match x with
    | (st, RPath p) =>
        match p_last_node p with
        | Some v => (st, RNode E v)
        | None => (st, RPanic E)        (* the unwrap() *)
        end
    | (st, r) => (st, r)
    end.

  Definition search_find' (k : kind) (d : dir) (fuel : nat) (h : heap) (c : CB) (root : nat)
             (target : option K) : sst K V E CB * sresult E :=
    match k with
    | KBfs =>
        let (st, r) := wl_loop_find fifo_push fifo_pop d target fuel (init_find h c root) [root] in
        (sst_of_find st, res_of_status r)
    | KDfs =>
        let (st, r) := descend_find d target fuel (init_find h c root) root 0 in
        (sst_of_find st, res_of_status r)
    | KPfsMin | KPfsMax =>
        map_last_node (search_path keqb cb vleb k d fuel h c root target false)
    end.

End SearchFind.
