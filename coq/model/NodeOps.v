(* NodeOps.v — heap of node allocations and the edge operations of the four
   flavours, written to follow src/*/node/mod.rs and adjacent.rs statement by
   statement.  Definitions only.

   heap: immutable (key,value) per allocation id (= position in [nodes]) and the
   two adjacency tables.  Adjacency entries hold allocation ids (the weak
   pointers); every lookup compares KEYS, as the code does. *)
From Gdsl.Model Require Export Base.

Set Implicit Arguments.

Section NodeOps.
  Variables K V E : Type.
  Variable keqb : K -> K -> bool.

  Definition adj := list (nat * E).

  Record heap := mkHeap {
    nodes : list (K * V);
    outs  : nat -> adj;
    ins   : nat -> adj
  }.

  Definition size (h : heap) : nat := length (nodes h).
  Definition empty_heap : heap := mkHeap [] (fun _ => []) (fun _ => []).

  Definition keyof (h : heap) (u : nat) : option K := option_map fst (nth_error (nodes h) u).
  Definition valof (h : heap) (u : nat) : option V := option_map snd (nth_error (nodes h) u).

  (* node w carries key k *)
  Definition has_key (h : heap) (k : K) (w : nat) : bool :=
    match keyof h w with Some k' => keqb k' k | None => false end.
  (* node w carries the same key as node u  (w.key() == u.key()) *)
  Definition same_key (h : heap) (u w : nat) : bool :=
    match keyof h u with Some k => has_key h k w | None => false end.

  (* Node::new — the new allocation's id is [size h] *)
  Definition alloc (h : heap) (k : K) (v : V) : heap :=
    mkHeap (nodes h ++ [(k, v)]) (outs h) (ins h).

  Definition set_outs (h : heap) (u : nat) (l : adj) : heap :=
    mkHeap (nodes h) (upd (outs h) u l) (ins h).
  Definition set_ins (h : heap) (u : nat) (l : adj) : heap :=
    mkHeap (nodes h) (outs h) (upd (ins h) u l).

  (* push_outbound at the caller, then push_inbound at the callee *)
  Definition connect (h : heap) (u v : nat) (e : E) : heap :=
    let h1 := set_outs h u (outs h u ++ [(v, e)]) in
    set_ins h1 v (ins h1 v ++ [(u, e)]).

  Inductive outcome := OkU | OkE (e : E) | ErrNotFound | ErrExists | Panic | Invalid.

  (* ---------------- queries ---------------- *)
  Definition find_outbound (h : heap) (u : nat) (k : K) : option (nat * E) :=
    find_first_p (has_key h k) (outs h u).
  Definition find_inbound (h : heap) (u : nat) (k : K) : option (nat * E) :=
    find_first_p (has_key h k) (ins h u).
  (* undirected: outbound half-edges first, then inbound *)
  Definition find_adjacent (h : heap) (u : nat) (k : K) : option (nat * E) :=
    match find_outbound h u k with Some x => Some x | None => find_inbound h u k end.

  Definition is_some {A} (o : option A) : bool := match o with Some _ => true | None => false end.
  Definition is_connected_d (h : heap) (u : nat) (k : K) : bool := is_some (find_outbound h u k).
  Definition is_connected_u (h : heap) (u : nat) (k : K) : bool := is_some (find_adjacent h u k).

  Definition out_degree (h : heap) (u : nat) : nat := length (outs h u).
  Definition in_degree (h : heap) (u : nat) : nat := length (ins h u).
  Definition degree_u (h : heap) (u : nat) : nat := length (outs h u) + length (ins h u).
  Definition is_root (h : heap) (u : nat) : bool := Nat.eqb (in_degree h u) 0.
  Definition is_leaf (h : heap) (u : nat) : bool := Nat.eqb (out_degree h u) 0.
  Definition is_orphan (h : heap) (u : nat) : bool := is_root h u && is_leaf h u.

  (* ---------------- directed mutations ---------------- *)
  Definition try_connect_d (h : heap) (u v : nat) (e : E) : heap * outcome :=
    match keyof h v with
    | None => (h, Invalid)
    | Some kv => if is_connected_d h u kv then (h, ErrExists) else (connect h u v e, OkU)
    end.

  (* find_outbound; remove_outbound at self (guard released); remove_inbound at the
     found node; `?` propagates EdgeNotFound after the first half was removed *)
  Definition disconnect_d (h : heap) (u : nat) (k : K) : heap * outcome :=
    match find_outbound h u k with
    | None => (h, ErrNotFound)
    | Some (v, _) =>
        match remove_first_p (has_key h k) (outs h u) with
        | None => (h, ErrNotFound)
        | Some (e, l') =>
            let h1 := set_outs h u l' in
            match remove_first_p (same_key h1 u) (ins h1 v) with
            | None => (h1, ErrNotFound)
            | Some (_, l'') => (set_ins h1 v l'', OkE e)
            end
        end
    end.

  Inductive lres := LDone | LPanic | LFuel.

  (* for Edge(_, v, _) in self.iter_out() { v.remove_inbound(self.key()).unwrap() }
     — position based, the heap is re-read at every step *)
  Fixpoint iso_out_loop (fuel : nat) (h : heap) (u pos : nat) : heap * lres :=
    match fuel with
    | 0 => (h, LFuel)
    | S f =>
        match nth_error (outs h u) pos with
        | None => (h, LDone)
        | Some (v, _) =>
            match remove_first_p (same_key h u) (ins h v) with
            | None => (h, LPanic)
            | Some (_, l') => iso_out_loop f (set_ins h v l') u (S pos)
            end
        end
    end.

  (* for Edge(v, _, _) in self.iter_in() { v.remove_outbound(self.key()).unwrap() } *)
  Fixpoint iso_in_loop (fuel : nat) (h : heap) (u pos : nat) : heap * lres :=
    match fuel with
    | 0 => (h, LFuel)
    | S f =>
        match nth_error (ins h u) pos with
        | None => (h, LDone)
        | Some (v, _) =>
            match remove_first_p (same_key h u) (outs h v) with
            | None => (h, LPanic)
            | Some (_, l') => iso_in_loop f (set_outs h v l') u (S pos)
            end
        end
    end.

  Definition clear_both (h : heap) (u : nat) : heap := set_ins (set_outs h u []) u [].

  Definition lres_outcome (r : lres) : outcome :=
    match r with LDone => OkU | LPanic => Panic | LFuel => Invalid end.

  Definition isolate_d (h : heap) (u : nat) : heap * outcome :=
    match iso_out_loop (S (length (outs h u))) h u 0 with
    | (h1, LDone) =>
        match iso_in_loop (S (length (ins h1 u))) h1 u 0 with
        | (h2, LDone) => (clear_both h2 u, OkU)
        | (h2, r) => (h2, lres_outcome r)
        end
    | (h1, r) => (h1, lres_outcome r)
    end.

  (* ---------------- undirected mutations ---------------- *)
  Definition try_connect_u (h : heap) (u v : nat) (e : E) : heap * outcome :=
    match keyof h v with
    | None => (h, Invalid)
    | Some kv => if is_connected_u h u kv then (h, ErrExists) else (connect h u v e, OkU)
    end.

  (* find_adjacent; remove the inbound half at self, else the outbound half;
     then the partner half at the found neighbour (outbound resp. inbound) *)
  Definition disconnect_u (h : heap) (u : nat) (k : K) : heap * outcome :=
    match find_adjacent h u k with
    | None => (h, ErrNotFound)
    | Some (v, _) =>
        match remove_first_p (has_key h k) (ins h u) with
        | Some (e, l') =>
            let h1 := set_ins h u l' in
            match remove_first_p (same_key h1 u) (outs h1 v) with
            | None => (h1, ErrNotFound)
            | Some (_, l'') => (set_outs h1 v l'', OkE e)
            end
        | None =>
            match remove_first_p (has_key h k) (outs h u) with
            | None => (h, ErrNotFound)
            | Some (e, l') =>
                let h1 := set_outs h u l' in
                match remove_first_p (same_key h1 u) (ins h1 v) with
                | None => (h1, ErrNotFound)
                | Some (_, l'') => (set_ins h1 v l'', OkE e)
                end
            end
        end
    end.

  (* get_adjacent(idx): outbound.get(idx) else inbound.get(idx - outbound.len()) *)
  Definition adj_at (h : heap) (u pos : nat) : option (nat * E) :=
    match nth_error (outs h u) pos with
    | Some x => Some x
    | None => nth_error (ins h u) (pos - length (outs h u))
    end.

  (* for Edge(_, v, _) in self.iter() {
       if v.remove_inbound(self.key()).is_err() { v.remove_outbound(self.key()).unwrap() } } *)
  Fixpoint iso_adj_loop (fuel : nat) (h : heap) (u pos : nat) : heap * lres :=
    match fuel with
    | 0 => (h, LFuel)
    | S f =>
        match adj_at h u pos with
        | None => (h, LDone)
        | Some (v, _) =>
            match remove_first_p (same_key h u) (ins h v) with
            | Some (_, l') => iso_adj_loop f (set_ins h v l') u (S pos)
            | None =>
                match remove_first_p (same_key h u) (outs h v) with
                | Some (_, l') => iso_adj_loop f (set_outs h v l') u (S pos)
                | None => (h, LPanic)
                end
            end
        end
    end.

  Definition isolate_u (h : heap) (u : nat) : heap * outcome :=
    match iso_adj_loop (S (length (outs h u) + length (ins h u))) h u 0 with
    | (h1, LDone) => (clear_both h1 u, OkU)
    | (h1, r) => (h1, lres_outcome r)
    end.

  (* ---------------- histories ---------------- *)
  Inductive op :=
  | ONew (k : K) (v : V)
  | OConnect (u v : nat) (e : E)
  | OTryConnect (u v : nat) (e : E)
  | ODisconnect (u : nat) (k : K)
  | OIsolate (u : nat).

  Definition valid (h : heap) (u : nat) : bool := Nat.ltb u (size h).

  Definition step_d (h : heap) (o : op) : heap * outcome :=
    match o with
    | ONew k v => (alloc h k v, OkU)
    | OConnect u v e => if valid h u && valid h v then (connect h u v e, OkU) else (h, Invalid)
    | OTryConnect u v e => if valid h u && valid h v then try_connect_d h u v e else (h, Invalid)
    | ODisconnect u k => if valid h u then disconnect_d h u k else (h, Invalid)
    | OIsolate u => if valid h u then isolate_d h u else (h, Invalid)
    end.

  Definition step_u (h : heap) (o : op) : heap * outcome :=
    match o with
    | ONew k v => (alloc h k v, OkU)
    | OConnect u v e => if valid h u && valid h v then (connect h u v e, OkU) else (h, Invalid)
    | OTryConnect u v e => if valid h u && valid h v then try_connect_u h u v e else (h, Invalid)
    | ODisconnect u k => if valid h u then disconnect_u h u k else (h, Invalid)
    | OIsolate u => if valid h u then isolate_u h u else (h, Invalid)
    end.

  (* run a history from a heap, collecting the outcomes (oldest first) *)
  Fixpoint run_from (step : heap -> op -> heap * outcome) (h : heap) (ops : list op)
    : heap * list outcome :=
    match ops with
    | [] => (h, [])
    | o :: r => let (h1, x) := step h o in
                let (h2, xs) := run_from step h1 r in (h2, x :: xs)
    end.

  Definition run_d (ops : list op) := run_from step_d empty_heap ops.
  Definition run_u (ops : list op) := run_from step_u empty_heap ops.

  (* the undirected adjacency sequence handed out by Node::iter() *)
  Definition adj_u (h : heap) (u : nat) : adj := outs h u ++ ins h u.

End NodeOps.

Arguments OkU {E}. Arguments ErrNotFound {E}. Arguments ErrExists {E}.
Arguments Panic {E}. Arguments Invalid {E}.
Arguments empty_heap {K V E}.
Arguments ONew {K V E}. Arguments OConnect {K V E}. Arguments OTryConnect {K V E}.
Arguments ODisconnect {K V E}. Arguments OIsolate {K V E}.
