(* Mutation.v — vocabulary for C20 (graphs may be mutated from inside edge loops and traversal
   callbacks).  The traversal machines of Search.v already thread an ARBITRARY heap-changing callback;
   this file only adds an instrumentation wrapper that logs, for every invocation, the heap the machine
   was looking at and the edge it handed out.  Definitions only. *)
From Gdsl.Model Require Export Base NodeOps Search Callback.

Set Implicit Arguments.

Section Mutation.
  Variables K V E : Type.
  Notation heap := (heap K V E).
  Notation edge := (edge E).
  Variable CB : Type.
  Variable cb : CB -> heap -> edge -> CB * heap * bool.

  (* the same callback, additionally recording (heap at the moment of the call, edge handed out), newest first *)
  Definition logcb (cl : CB * list (heap * edge)) (h : heap) (e : edge)
    : (CB * list (heap * edge)) * heap * bool :=
    match cb (fst cl) h e with
    | (c1, h1, ok) => ((c1, (h, e) :: snd cl), h1, ok)
    end.

  (* e is, in heap h, an entry of the list a plain `for e in node.iter_*()` loop walks:
     iter_out: Edge(u, v, e) with (v,e) in outs h u; iter_in: Edge(w, u, e) with (w,e) in ins h u;
     iter (undirected): Edge(u, v, e) with (v,e) in outs h u ++ ins h u *)
  Definition is_iter_edge (h : heap) (d : dir) (e : edge) : Prop :=
    match d with
    | DOut => In (edst e, eval e) (outs h (esrc e))
    | DIn => In (esrc e, eval e) (ins h (edst e))
    | DAdj => In (edst e, eval e) (outs h (esrc e) ++ ins h (esrc e))
    end.

  (* e is, in heap h, an adjacency entry of its source in the traversal direction d (after the
     reversal that transposed traversals apply) *)
  Definition is_trav_edge (h : heap) (d : dir) (e : edge) : Prop :=
    In (edst e, eval e) (adj_of h d (esrc e)).
End Mutation.
