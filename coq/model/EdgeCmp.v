(* EdgeCmp.v — the comparison traits of Edge (src/*/node/mod.rs):
     directed   (digraph, and sync_digraph as its drop-in twin): PartialEq/Eq = both endpoints equal (node equality = key
                equality); PartialOrd/Ord = comparison of the edge values
     undirected (ungraph, sync_ungraph): PartialEq/Eq/PartialOrd/Ord all by the edge value only.
   Definitions only. *)
From Gdsl.Model Require Export Base NodeOps Search.

Set Implicit Arguments.

Section EdgeCmp.
  Variables K V E : Type.
  Variable keqb : K -> K -> bool.
  Variable ecmp : E -> E -> comparison.

  Definition edge_eqb_d (h : heap K V E) (a b : edge E) : bool :=
    same_key keqb h (esrc a) (esrc b) && same_key keqb h (edst a) (edst b).
  Definition edge_eqb_u (a b : edge E) : bool :=
    match ecmp (eval a) (eval b) with Eq => true | _ => false end.
  Definition edge_cmp (a b : edge E) : comparison := ecmp (eval a) (eval b).

  (* Edge::reverse(): the same value between swapped endpoints *)
  Definition edge_reverse (a : edge E) : edge E := ((edst a, esrc a), eval a).
End EdgeCmp.
