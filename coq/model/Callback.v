(* Callback.v — the Method of a traversal as the harness instantiates it:
   Empty / Filter(pred) / ForEach(record), optionally running a script of node
   operations at given invocation indices (C20).  Definitions only. *)
From Gdsl.Model Require Export Base NodeOps Search.

Set Implicit Arguments.

Section Callback.
  Variables K V E : Type.
  Variable keqb : K -> K -> bool.
  Notation heap := (heap K V E).
  Notation edge := (edge E).

  (* count: number of invocations so far; trace: edges handed to the closure (newest first);
     log: outcomes of the scripted operations (newest first) *)
  Record cbst := mkCb { c_count : nat; c_trace : list edge; c_log : list (outcome E) }.
  Definition cb0 : cbst := mkCb 0 [] [].

  Variable step : heap -> op K V E -> heap * outcome E.

  Fixpoint run_ops (h : heap) (ops : list (op K V E)) (log : list (outcome E)) : heap * list (outcome E) :=
    match ops with
    | [] => (h, log)
    | o :: r => let (h1, x) := step h o in run_ops h1 r (x :: log)
    end.

  Fixpoint script_at (script : list (nat * list (op K V E))) (k : nat) : list (op K V E) :=
    match script with
    | [] => []
    | (i, ops) :: r => if Nat.eqb i k then ops ++ script_at r k else script_at r k
    end.

  (* pred decides on (source key, target key, value); an endpoint without key cannot occur *)
  Definition eval_pred (pred : K -> K -> E -> bool) (h : heap) (e : edge) : bool :=
    match keyof h (esrc e), keyof h (edst e) with
    | Some a, Some b => pred a b (eval e)
    | _, _ => true
    end.

  (* is_filter = true : Method::Filter (the closure's answer is used);
     is_filter = false: Method::ForEach or Empty (always continue) *)
  Definition mk_cb (is_filter : bool) (pred : K -> K -> E -> bool)
             (script : list (nat * list (op K V E)))
             (c : cbst) (h : heap) (e : edge) : cbst * heap * bool :=
    let (h1, log1) := run_ops h (script_at script (c_count c)) (c_log c) in
    let ok := if is_filter then eval_pred pred h e else true in
    (mkCb (S (c_count c)) (e :: c_trace c) log1, h1, ok).
End Callback.
