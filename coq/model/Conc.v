(* Conc.v — concurrent executions of the sync flavours (C17).

   Every node operation of src/sync_*/node/mod.rs is a sequence of CRITICAL SECTIONS, each on ONE node's
   RwLock: `lock(u, read|write); body; unlock`.  After the repairs of D1/D14 no guard is alive when the
   next lock is requested (checked on the implementation by the lock-point probe), so an operation is
   a program of atomic steps `Step u w k`: acquire u's lock (w = write), run k on the current heap,
   release.  Threads interleave at these steps.  A panic inside a critical section that holds a WRITE
   guard poisons that node's lock; every later `read()/write().unwrap()` of it panics.

   Definitions only. *)
From Gdsl.Model Require Export Base NodeOps.

Set Implicit Arguments.

Section Conc.
  Variables K V E : Type.
  Variable keqb : K -> K -> bool.
  Notation heap := (heap K V E).

  (* what a call returns *)
  Inductive cres :=
  | RO (o : outcome E)
  | RNat (n : nat)
  | RBool (b : bool)
  | REdges (l : list (nat * nat * E)).

  Inductive prog :=
  | Ret (r : cres)
  | Step (u : nat) (w : bool) (k : heap -> heap * prog)
  | Abort (poison : option nat)      (* panic; Some v: while holding v's write guard *)
  | Fuel.                            (* the model's loop bound was exhausted (excluded in statements) *)

  (* ---------------- shared by both flavours ---------------- *)
  Definition m_connect (u v : nat) (e : E) : prog :=
    Step u true (fun h => (set_outs h u (outs h u ++ [(v, e)]),
    Step v true (fun h => (set_ins h v (ins h v ++ [(u, e)]), Ret (RO OkU))))).

  Definition m_read (u : nat) (f : heap -> cres) : prog :=
    Step u false (fun h => (h, Ret (f h))).

  Definition m_out_degree u := m_read u (fun h => RNat (length (outs h u))).
  Definition m_in_degree u := m_read u (fun h => RNat (length (ins h u))).
  Definition m_is_root u := m_read u (fun h => RBool (is_root h u)).
  Definition m_is_leaf u := m_read u (fun h => RBool (is_leaf h u)).
  (* directed is_orphan: is_root() && is_leaf(): two separate critical sections, short-circuit *)
  Definition m_is_orphan_d u : prog :=
    Step u false (fun h => (h, if is_root h u then m_is_leaf u else Ret (RBool false))).
  (* undirected degree / is_orphan: one critical section *)
  Definition m_degree_u u := m_read u (fun h => RNat (length (outs h u) + length (ins h u))).
  Definition m_is_orphan_u u := m_read u (fun h => RBool (is_orphan h u)).
  Definition m_is_connected_d u (k : K) := m_read u (fun h => RBool (is_connected_d keqb h u k)).
  Definition m_is_connected_u u (k : K) := m_read u (fun h => RBool (is_connected_u keqb h u k)).

  (* for e in u.iter_*(): one critical section per next() *)
  Fixpoint m_iter (fuel : nat) (get : heap -> nat -> option (nat * nat * E)) (u pos : nat) (acc : list (nat * nat * E)) : prog :=
    match fuel with
    | 0 => Fuel
    | S f => Step u false (fun h => (h, match get h pos with
                                        | None => Ret (REdges (rev acc))
                                        | Some e => m_iter f get u (S pos) (e :: acc)
                                        end))
    end.
  Definition get_out (u : nat) (h : heap) (pos : nat) := option_map (fun p => (u, fst p, snd p)) (nth_error (outs h u) pos).
  Definition get_in (u : nat) (h : heap) (pos : nat) := option_map (fun p => (fst p, u, snd p)) (nth_error (ins h u) pos).
  Definition get_adj (u : nat) (h : heap) (pos : nat) := option_map (fun p => (u, fst p, snd p)) (adj_at h u pos).

  (* ---------------- sync_digraph ---------------- *)
  Definition m_try_connect_d (u v : nat) (e : E) : prog :=
    Step u false (fun h => (h, match keyof h v with
                              | None => Ret (RO Invalid)
                              | Some kv => if is_connected_d keqb h u kv then Ret (RO ErrExists) else m_connect u v e
                              end)).

  Definition m_disconnect_d (u : nat) (k : K) : prog :=
    Step u false (fun h => (h,
      match find_outbound keqb h u k with
      | None => Ret (RO ErrNotFound)
      | Some (v, _) =>
          Step u true (fun h =>
            match remove_first_p (has_key keqb h k) (outs h u) with
            | None => (h, Ret (RO ErrNotFound))
            | Some (e, l') =>
                (set_outs h u l',
                 Step v true (fun h =>
                   match remove_first_p (same_key keqb h u) (ins h v) with
                   | None => (h, Ret (RO ErrNotFound))
                   | Some (_, l'') => (set_ins h v l'', Ret (RO (OkE e)))
                   end))
            end)
      end)).

  Definition m_clear (u : nat) : prog :=
    Step u true (fun h => (set_outs h u [], Step u true (fun h => (set_ins h u [], Ret (RO OkU))))).

  Fixpoint m_iso_in (fuel : nat) (u pos : nat) : prog :=
    match fuel with
    | 0 => Fuel
    | S f => Step u false (fun h => (h,
        match nth_error (ins h u) pos with
        | None => m_clear u
        | Some (w, _) =>
            Step w true (fun h =>
              match remove_first_p (same_key keqb h u) (outs h w) with
              | None => (h, Abort (Some w))
              | Some (_, l') => (set_outs h w l', m_iso_in f u (S pos))
              end)
        end))
    end.

  Fixpoint m_iso_out (fuel : nat) (u pos : nat) : prog :=
    match fuel with
    | 0 => Fuel
    | S f => Step u false (fun h => (h,
        match nth_error (outs h u) pos with
        | None => m_iso_in fuel u 0
        | Some (v, _) =>
            Step v true (fun h =>
              match remove_first_p (same_key keqb h u) (ins h v) with
              | None => (h, Abort (Some v))
              | Some (_, l') => (set_ins h v l', m_iso_out f u (S pos))
              end)
        end))
    end.

  (* ---------------- sync_ungraph ---------------- *)
  Definition m_try_connect_u (u v : nat) (e : E) : prog :=
    Step u false (fun h => (h, match keyof h v with
                              | None => Ret (RO Invalid)
                              | Some kv => if is_connected_u keqb h u kv then Ret (RO ErrExists) else m_connect u v e
                              end)).

  Definition m_disconnect_u (u : nat) (k : K) : prog :=
    Step u false (fun h => (h,
      match find_adjacent keqb h u k with
      | None => Ret (RO ErrNotFound)
      | Some (v, _) =>
          Step u true (fun h =>
            match remove_first_p (has_key keqb h k) (ins h u) with
            | Some (e, l') =>
                (set_ins h u l',
                 Step v true (fun h =>
                   match remove_first_p (same_key keqb h u) (outs h v) with
                   | None => (h, Ret (RO ErrNotFound))
                   | Some (_, l'') => (set_outs h v l'', Ret (RO (OkE e)))
                   end))
            | None =>
                (h,
                 Step u true (fun h =>
                   match remove_first_p (has_key keqb h k) (outs h u) with
                   | None => (h, Ret (RO ErrNotFound))
                   | Some (e, l') =>
                       (set_outs h u l',
                        Step v true (fun h =>
                          match remove_first_p (same_key keqb h u) (ins h v) with
                          | None => (h, Ret (RO ErrNotFound))
                          | Some (_, l'') => (set_ins h v l'', Ret (RO (OkE e)))
                          end))
                   end))
            end)
      end)).

  Fixpoint m_iso_adj (fuel : nat) (u pos : nat) : prog :=
    match fuel with
    | 0 => Fuel
    | S f => Step u false (fun h => (h,
        match adj_at h u pos with
        | None => m_clear u
        | Some (v, _) =>
            Step v true (fun h =>
              match remove_first_p (same_key keqb h u) (ins h v) with
              | Some (_, l') => (set_ins h v l', m_iso_adj f u (S pos))
              | None =>
                  (h, Step v true (fun h =>
                        match remove_first_p (same_key keqb h u) (outs h v) with
                        | Some (_, l') => (set_outs h v l', m_iso_adj f u (S pos))
                        | None => (h, Abort (Some v))
                        end))
              end)
        end))
    end.

  (* ---------------- calls ---------------- *)
  Inductive call :=
  | CConnect (u v : nat) (e : E)
  | CTryConnect (u v : nat) (e : E)
  | CDisconnect (u : nat) (k : K)
  | CIsolate (u : nat)
  | CDegree (u : nat)            (* directed: out_degree; undirected: degree *)
  | CInDegree (u : nat)
  | CIsOrphan (u : nat)
  | CIsConnected (u : nat) (k : K)
  | CIter (u : nat)              (* collect `for e in u.iter_out()` / `u.iter()` *)
  | CIterIn (u : nat).

  Definition loop_fuel : nat := 400.

  Definition prog_of (directed : bool) (c : call) : prog :=
    match c with
    | CConnect u v e => m_connect u v e
    | CTryConnect u v e => if directed then m_try_connect_d u v e else m_try_connect_u u v e
    | CDisconnect u k => if directed then m_disconnect_d u k else m_disconnect_u u k
    | CIsolate u => if directed then m_iso_out loop_fuel u 0 else m_iso_adj loop_fuel u 0
    | CDegree u => if directed then m_out_degree u else m_degree_u u
    | CInDegree u => m_in_degree u
    | CIsOrphan u => if directed then m_is_orphan_d u else m_is_orphan_u u
    | CIsConnected u k => if directed then m_is_connected_d u k else m_is_connected_u u k
    | CIter u => if directed then m_iter loop_fuel (get_out u) u 0 [] else m_iter loop_fuel (get_adj u) u 0 []
    | CIterIn u => m_iter loop_fuel (get_in u) u 0 []
    end.

  (* ---------------- threads and schedules ---------------- *)
  Inductive tstatus := TRun | TDone | TPanic | TFuel.

  Record thread := mkT {
    t_cur : option prog;           (* the call in progress, parked at its next Step *)
    t_rest : list call;
    t_results : list cres;         (* oldest first *)
    t_status : tstatus
  }.

  Record config := mkC { c_heap : heap; c_poisoned : list nat; c_threads : list thread }.

  (* run a thread forward without touching any lock until it is parked at a Step (or has ended) *)
  Fixpoint settle (directed : bool) (fuel : nat) (t : thread) : thread :=
    match fuel with
    | 0 => t
    | S f =>
        match t_status t with
        | TRun =>
            match t_cur t with
            | Some (Ret r) => settle directed f (mkT None (t_rest t) (t_results t ++ [r]) TRun)
            | Some (Step _ _ _) => t
            | Some (Abort _) => mkT None (t_rest t) (t_results t) TPanic
            | Some Fuel => mkT None (t_rest t) (t_results t) TFuel
            | None =>
                match t_rest t with
                | [] => mkT None [] (t_results t) TDone
                | c :: r => settle directed f (mkT (Some (prog_of directed c)) r (t_results t) TRun)
                end
            end
        | _ => t
        end
    end.

  Definition mk_thread (directed : bool) (calls : list call) : thread :=
    settle directed (2 * length calls + 2) (mkT None calls [] TRun).

  Definition init_config (directed : bool) (h : heap) (progs : list (list call)) : config :=
    mkC h [] (map (mk_thread directed) progs).

  Definition runnable (t : thread) : bool :=
    match t_status t, t_cur t with TRun, Some (Step _ _ _) => true | _, _ => false end.

  (* an event: thread, node whose lock is taken, write? *)
  Definition event := (nat * nat * bool)%type.

  Fixpoint set_nth {A} (l : list A) (i : nat) (x : A) : list A :=
    match l, i with
    | [], _ => []
    | _ :: r, 0 => x :: r
    | y :: r, S j => y :: set_nth r j x
    end.

  (* thread tid performs the critical section it is parked at *)
  Definition cstep (directed : bool) (c : config) (tid : nat) : config * option event :=
    match nth_error (c_threads c) tid with
    | Some t =>
        match t_status t, t_cur t with
        | TRun, Some (Step u w k) =>
            if existsb (Nat.eqb u) (c_poisoned c) then
              (* read()/write().unwrap() on a poisoned lock panics; no guard is held: nothing new is poisoned *)
              (mkC (c_heap c) (c_poisoned c) (set_nth (c_threads c) tid (mkT None (t_rest t) (t_results t) TPanic)), Some (tid, u, w))
            else
              let (h1, p1) := k (c_heap c) in
              let pois := match p1 with Abort (Some v) => v :: c_poisoned c | _ => c_poisoned c end in
              let t1 := settle directed (2 * length (t_rest t) + 4) (mkT (Some p1) (t_rest t) (t_results t) TRun) in
              (mkC h1 pois (set_nth (c_threads c) tid t1), Some (tid, u, w))
        | _, _ => (c, None)
        end
    | None => (c, None)
    end.

  Definition first_runnable (c : config) : option nat :=
    let fix go (l : list thread) (i : nat) : option nat :=
      match l with [] => None | t :: r => if runnable t then Some i else go r (S i) end in
    go (c_threads c) 0.

  (* follow a schedule: at every step the scheduled thread if it is runnable, else the lowest runnable one;
     after the schedule is used up the lowest runnable thread runs.  fuel bounds the total number of steps. *)
  Fixpoint run_sched (directed : bool) (fuel : nat) (c : config) (sched : list nat) (evs : list event) : config * list event :=
    match fuel with
    | 0 => (c, rev evs)
    | S f =>
        let pick :=
          match sched with
          | tid :: _ =>
              match nth_error (c_threads c) tid with
              | Some t => if runnable t then Some tid else first_runnable c
              | None => first_runnable c
              end
          | [] => first_runnable c
          end in
        match pick with
        | None => (c, rev evs)
        | Some tid =>
            match cstep directed c tid with
            | (c1, Some ev) => run_sched directed f c1 (tl sched) (ev :: evs)
            | (c1, None) => (c1, rev evs)
            end
        end
    end.

  (* all maximal schedules (as lists of thread ids), depth-first; `limit` bounds the number returned *)
  Fixpoint explore (directed : bool) (fuel : nat) (c : config) (prefix : list nat) : list (list nat) :=
    match fuel with
    | 0 => [rev prefix]
    | S f =>
        let tids := filter (fun i => match nth_error (c_threads c) i with Some t => runnable t | None => false end)
                           (iota 0 (length (c_threads c))) in
        match tids with
        | [] => [rev prefix]
        | _ => flat_map (fun tid => explore directed f (fst (cstep directed c tid)) (tid :: prefix)) tids
        end
    end.

  (* ---------------- what C17 asks of a finished run ---------------- *)
  Definition all_done (c : config) : bool :=
    forallb (fun t => match t_status t with TDone => true | _ => false end) (c_threads c).
  Definition no_panic (c : config) : bool :=
    forallb (fun t => match t_status t with TPanic => false | _ => true end) (c_threads c) &&
    match c_poisoned c with [] => true | _ => false end.

  (* ---------------- the same executions with explicit guards (for the deadlock-freedom theorem) -------------
     A critical section is split into ACQUIRE (may block: a writer excludes everybody, readers exclude writers) and
     BODY+RELEASE.  A thread holds a guard only between the two, and the second is always enabled. *)
  Record guard := mkG { g_tid : nat; g_node : nat; g_write : bool }.
  Record gconfig := mkGC { gc_cfg : config; gc_held : list guard }.

  Definition conflicts (held : list guard) (tid u : nat) (w : bool) : bool :=
    existsb (fun g => Nat.eqb (g_node g) u && negb (Nat.eqb (g_tid g) tid) && (w || g_write g)) held.
  Definition holds (held : list guard) (tid : nat) : bool := existsb (fun g => Nat.eqb (g_tid g) tid) held.

  Inductive gresult := GMoved (c : gconfig) | GBlocked | GIdle.

  Definition gstep (directed : bool) (c : gconfig) (tid : nat) : gresult :=
    match nth_error (c_threads (gc_cfg c)) tid with
    | Some t =>
        match t_status t, t_cur t with
        | TRun, Some (Step u w _) =>
            if holds (gc_held c) tid then
              (* body + release: exactly the atomic step of [cstep] *)
              GMoved (mkGC (fst (cstep directed (gc_cfg c) tid))
                           (filter (fun g => negb (Nat.eqb (g_tid g) tid)) (gc_held c)))
            else if conflicts (gc_held c) tid u w then GBlocked
            else GMoved (mkGC (gc_cfg c) (mkG tid u w :: gc_held c))
        | _, _ => GIdle
        end
    | None => GIdle
    end.

  Inductive greach (directed : bool) (c0 : gconfig) : gconfig -> Prop :=
  | gr_refl : greach directed c0 c0
  | gr_step : forall c tid c', greach directed c0 c -> gstep directed c tid = GMoved c' -> greach directed c0 c'.

  Definition unfinished (c : gconfig) : Prop :=
    exists tid t, nth_error (c_threads (gc_cfg c)) tid = Some t /\ runnable t = true.
  (* some thread still has work but no thread can move *)
  Definition deadlocked (directed : bool) (c : gconfig) : Prop :=
    unfinished c /\ forall tid c', gstep directed c tid <> GMoved c'.

  Definition ginit (directed : bool) (h : heap) (progs : list (list call)) : gconfig :=
    mkGC (init_config directed h progs) [].

End Conc.
