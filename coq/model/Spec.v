(* Spec.v — the vocabulary in which the property theorems are stated: heap invariants,
   paths, reachability, purity of callbacks.  Definitions only, no proofs. *)
From Gdsl.Model Require Export Base NodeOps Search Container.
From Coq Require Export Permutation.

Set Implicit Arguments.

Section Spec.
  Variables K V E : Type.
  Variable keqb : K -> K -> bool.
  Notation heap := (heap K V E).
  Notation edge := (edge E).

  (* keqb is the key type's equality *)
  Definition KeqbSpec : Prop := forall a b : K, keqb a b = true <-> a = b.

  (* ---------------- heap invariants ---------------- *)
  (* C01 / C02: the outbound (half-)edges of u towards v are, value by value and in order,
     the inbound (half-)edges of v from u *)
  Definition Mirror (h : heap) : Prop :=
    forall u v, to_ v (outs h u) = to_ u (ins h v).

  (* nothing is stored at unallocated ids; every stored id is allocated *)
  Definition Wf (h : heap) : Prop :=
    (forall u, size h <= u -> outs h u = [] /\ ins h u = []) /\
    (forall u v e, In (v, e) (outs h u) -> v < size h) /\
    (forall u v e, In (v, e) (ins h u) -> v < size h).

  (* distinct live nodes carry distinct keys (the properties' proviso) *)
  Definition KeysInj (h : heap) : Prop :=
    forall u v k, keyof h u = Some k -> keyof h v = Some k -> u = v.

  Definition Inv (h : heap) : Prop := Mirror h /\ Wf h /\ KeysInj h.

  (* the keys of the allocations of a history are pairwise distinct *)
  Fixpoint new_keys (ops : list (op K V E)) : list K :=
    match ops with
    | [] => []
    | ONew k _ :: r => k :: new_keys r
    | _ :: r => new_keys r
    end.
  Definition KeysFresh (ops : list (op K V E)) : Prop := NoDup (new_keys ops).

  Definition NoPanic (outs : list (outcome E)) : Prop := Forall (fun o => o <> Panic) outs.

  (* ---------------- graph vocabulary for the traversals ---------------- *)
  Section Graph.
    Variable h : heap.
    Variable d : dir.
    Variable accept : edge -> bool.   (* a pure filter, as a predicate on (source id, target id, value) *)

    (* e is an adjacency entry of its source in direction d, with its stored value *)
    Definition is_edge (e : edge) : Prop := In (edst e, eval e) (adj_of h d (esrc e)).
    Definition good_edge (e : edge) : Prop := is_edge e /\ accept e = true.

    (* edges joined end to start, from a to b *)
    Inductive chain : nat -> list edge -> nat -> Prop :=
    | chain_nil : forall a, chain a [] a
    | chain_cons : forall a e p b, esrc e = a -> chain (edst e) p b -> chain a (e :: p) b.

    Definition IsPath (a : nat) (p : list edge) (b : nat) : Prop :=
      chain a p b /\ Forall good_edge p.
    Definition Reach (a b : nat) : Prop := exists p, IsPath a p b.
    (* one or more edges *)
    Definition ReachPlus (a b : nat) : Prop := exists p, p <> [] /\ IsPath a p b.

    (* the nodes a path visits after its start *)
    Definition path_targets (p : list edge) : list nat := map (@edst E) p.

    (* what the traversal machines guarantee about the edge tree they record (in recording order),
       and what backtrack_edge_tree needs: accepted stored edges, pairwise distinct targets, and
       every edge hangs off the root or off an earlier target *)
    Definition TreeOK (root : nat) (tree : list edge) : Prop :=
      Forall good_edge tree /\
      NoDup (map (@edst E) tree) /\
      (forall t1 e t2, tree = t1 ++ e :: t2 -> esrc e = root \/ In (esrc e) (map (@edst E) t1)).
    (* "some depth-first traversal" (C10), nondeterministic in the order in which the unvisited
       accepted successors are taken.  [DfsKids S u pre post S']: continuing the exploration of u
       from the visited set S discovers the nodes [pre] (in discovery order) and finishes them in
       the order [post], ending with visited set S'; it may stop only when every accepted edge
       leaving u leads to a visited node.  A whole run from r is [DfsKids [r] r pre post S']:
       its preorder is r :: pre, its postorder post ++ [r]. *)
    Inductive DfsKids : list nat -> nat -> list nat -> list nat -> list nat -> Prop :=
    | dk_done : forall S u,
        (forall e, good_edge e -> esrc e = u -> In (edst e) S) -> DfsKids S u [] [] S
    | dk_step : forall S u e pre1 post1 S1 pre2 post2 S2,
        good_edge e -> esrc e = u -> ~ In (edst e) S ->
        DfsKids (edst e :: S) (edst e) pre1 post1 S1 ->
        DfsKids S1 u pre2 post2 S2 ->
        DfsKids S u (edst e :: pre1 ++ pre2) (post1 ++ edst e :: post2) S2.

    (* the root is entered by the last recorded edge at most (path mode: never; cycle mode: the closing edge) *)
    Definition RootLast (root : nat) (tree : list edge) : Prop :=
      forall t1 e t2, tree = t1 ++ e :: t2 -> edst e = root -> t2 = [].
  End Graph.

  (* ---------------- containers ---------------- *)
  (* a container binds each key at most once, to a live node carrying that key *)
  Definition GraphOK (h : heap) (g : graph K) : Prop :=
    NoDup (map (@fst K nat) g) /\ (forall k u, In (k, u) g -> keyof h u = Some k /\ u < size h).
  Definition members (g : graph K) : list nat := map (@snd K nat) g.
  (* every neighbour (in either direction) of a member is a member (C11, C12) *)
  Definition Closed (h : heap) (g : graph K) : Prop :=
    forall u, In u (members g) ->
      (forall v e, In (v, e) (outs h u) -> In v (members g)) /\
      (forall v e, In (v, e) (ins h u) -> In v (members g)).
  (* only the OUT-neighbours (the edges a directed container serialises): what the directed round trip needs *)
  Definition ClosedOut (h : heap) (g : graph K) : Prop :=
    forall u, In u (members g) -> forall v e, In (v, e) (outs h u) -> In v (members g).
  Definition ClosedIn (h : heap) (g : graph K) : Prop :=
    forall u, In u (members g) -> forall v e, In (v, e) (ins h u) -> In v (members g).
  (* the observed iteration order lists every bound key exactly once *)
  Definition OrderOK (g : graph K) (order : list K) : Prop := Permutation order (map (@fst K nat) g).
  Definition accept_all : edge -> bool := fun _ => true.

  (* ---------------- callbacks ---------------- *)
  (* a callback that, run on heap h, leaves it alone and answers by a fixed predicate:
     Method::Empty / ForEach(recorder) (accept = fun _ => true) or Filter(pure f).
     (The heap of a traversal only changes through its callback, so it stays h.) *)
  Definition PureCb (CB : Type) (h : heap) (cb : CB -> heap -> edge -> CB * heap * bool)
             (accept : edge -> bool) : Prop :=
    forall c e, snd (fst (cb c h e)) = h /\ snd (cb c h e) = accept e.

  (* ---------------- queues of the worklist machine ---------------- *)
  (* a queue never loses or invents elements; cont = its contents as a multiset *)
  Record QSpec (Q : Type) (qpush : Q -> nat -> Q) (qpop : Q -> option (nat * Q))
         (cont : Q -> list nat) : Prop := mkQSpec {
    qs_push : forall q x, Permutation (cont (qpush q x)) (x :: cont q);
    qs_pop_none : forall q, qpop q = None -> cont q = [];
    qs_pop_some : forall q x q', qpop q = Some (x, q') -> Permutation (cont q) (x :: cont q')
  }.

  (* total number of adjacency entries + nodes: a fuel that always suffices for pure callbacks *)
  Definition fuel_bound (h : heap) : nat :=
    S (S (size h) + fold_right (fun u acc => length (outs h u) + length (ins h u) + acc) 0 (iota 0 (size h))) * S (S (size h)).

End Spec.
