(* Search.v — the traversal machines of src/*/node/algo/{bfs,dfs,pfs,order,path,method}.rs.
   Definitions only.

   Two machines, both re-reading the heap by POSITION at every step (the code's
   iterators hold a node and a position, no borrow across the callback) and both
   threading a callback that may change the heap:
     worklist  — `while let Some(node) = queue.pop..` of bfs.rs / pfs.rs
     descend   — the recursive loops of dfs.rs / order.rs
   Every public entry point is an instance given by the configuration below
   (direction of the iterator, queue discipline, root initially visited or not,
   target, record before/after the recursive call). *)
From Gdsl.Model Require Export Base NodeOps.

Set Implicit Arguments.

Section Search.
  Variables K V E : Type.
  Variable keqb : K -> K -> bool.
  Notation heap := (heap K V E).

  (* an edge as handed to callbacks and stored in results: Edge(source, target, value) *)
  Definition edge := (nat * nat * E)%type.
  Definition esrc (e : edge) : nat := fst (fst e).
  Definition edst (e : edge) : nat := snd (fst e).
  Definition eval (e : edge) : E := snd e.

  (* which iterator the loop walks.  DIn: iter_in() followed by Edge::reverse(), i.e. a stored
     edge w->u is handed out as Edge(u, w, e) *)
  Inductive dir := DOut | DIn | DAdj.

  Definition adj_of (h : heap) (d : dir) (u : nat) : list (nat * E) :=
    match d with DOut => outs h u | DIn => ins h u | DAdj => outs h u ++ ins h u end.

  Definition edge_at (h : heap) (d : dir) (u pos : nat) : option edge :=
    match d with
    | DOut => option_map (fun p => (u, fst p, snd p)) (nth_error (outs h u) pos)
    | DIn => option_map (fun p => (u, fst p, snd p)) (nth_error (ins h u) pos)
    | DAdj => option_map (fun p => (u, fst p, snd p)) (adj_at h u pos)
    end.

  (* the edge a plain `for e in node.iter_*()` loop yields (iter_in is NOT reversed there) *)
  Definition iter_edge (h : heap) (d : dir) (u pos : nat) : option edge :=
    match d with
    | DOut => option_map (fun p => (u, fst p, snd p)) (nth_error (outs h u) pos)
    | DIn => option_map (fun p => (fst p, u, snd p)) (nth_error (ins h u) pos)
    | DAdj => option_map (fun p => (u, fst p, snd p)) (adj_at h u pos)
    end.

  (* ---------------- callback and machine state ---------------- *)
  Variable CB : Type.
  (* Method::exec: Empty -> true; Filter f -> f(e); ForEach f -> f(e); true.
     The callback sees (and may change) the heap. *)
  Variable cb : CB -> heap -> edge -> CB * heap * bool.

  Record sst := mkS { s_heap : heap; s_cb : CB; s_vis : list K; s_tree : list edge }.

  Definition in_vis (h : heap) (vis : list K) (v : nat) : bool :=
    match keyof h v with Some k => memb keqb k vis | None => true end.
  Definition mark (h : heap) (vis : list K) (v : nat) : list K :=
    match keyof h v with Some k => k :: vis | None => vis end.
  Definition is_target (h : heap) (t : option K) (v : nat) : bool :=
    match t with Some k => has_key keqb h k v | None => false end.

  Inductive status := Found (v : nat) | Exhausted | OutOfFuel.

  Definition call_cb (st : sst) (e : edge) : sst * bool :=
    match cb (s_cb st) (s_heap st) e with
    | (c1, h1, ok) => (mkS h1 c1 (s_vis st) (s_tree st), ok)
    end.

  Definition discover (st : sst) (v : nat) (e : option edge) : sst :=
    mkS (s_heap st) (s_cb st) (mark (s_heap st) (s_vis st) v)
        (match e with Some x => s_tree st ++ [x] | None => s_tree st end).

  Definition push_tree (st : sst) (e : edge) : sst :=
    mkS (s_heap st) (s_cb st) (s_vis st) (s_tree st ++ [e]).

  (* a manual `for e in u.iter_*() { body(e) }` loop; the body may change the heap *)
  Fixpoint edge_loop (fuel : nat) (d : dir) (c : CB) (h : heap) (u pos : nat) : CB * heap * bool :=
    match fuel with
    | 0 => (c, h, false)
    | S f =>
        match iter_edge h d u pos with
        | None => (c, h, true)
        | Some e => match cb c h e with (c1, h1, _) => edge_loop f d c1 h1 u (S pos) end
        end
    end.

  (* ---------------- worklist machine (bfs.rs, pfs.rs) ---------------- *)
  Section Worklist.
    Variable Q : Type.
    Variable qpush : Q -> nat -> Q.
    Variable qpop : Q -> option (nat * Q).
    Variable d : dir.
    Variable target : option K.

    (* for edge in node.iter_*() { if exec(edge) { if !visited(v) { visit; record; target?; push } } } *)
    Fixpoint wl_scan (fuel : nat) (st : sst) (q : Q) (u pos : nat) : sst * Q * status :=
      match fuel with
      | 0 => (st, q, OutOfFuel)
      | S f =>
          match edge_at (s_heap st) d u pos with
          | None => (st, q, Exhausted)
          | Some e =>
              let (st1, ok) := call_cb st e in
              if ok && negb (in_vis (s_heap st1) (s_vis st1) (edst e)) then
                let st2 := discover st1 (edst e) (Some e) in
                if is_target (s_heap st2) target (edst e) then (st2, q, Found (edst e))
                else wl_scan f st2 (qpush q (edst e)) u (S pos)
              else wl_scan f st1 q u (S pos)
          end
      end.

    Fixpoint wl_loop (fuel : nat) (st : sst) (q : Q) : sst * status :=
      match fuel with
      | 0 => (st, OutOfFuel)
      | S f =>
          match qpop q with
          | None => (st, Exhausted)
          | Some (u, q') =>
              match wl_scan fuel st q' u 0 with
              | (st1, q1, Exhausted) => wl_loop f st1 q1
              | (st1, _, r) => (st1, r)
              end
          end
      end.
  End Worklist.

  (* ---------------- recursive machine (dfs.rs, order.rs) ---------------- *)
  Section Descend.
    Variable d : dir.
    Variable target : option K.
    Variable post : bool.   (* record the tree edge after (true) or before (false) the recursive call *)

    Fixpoint descend (fuel : nat) (st : sst) (u pos : nat) : sst * status :=
      match fuel with
      | 0 => (st, OutOfFuel)
      | S f =>
          match edge_at (s_heap st) d u pos with
          | None => (st, Exhausted)
          | Some e =>
              let (st1, ok) := call_cb st e in
              if ok && negb (in_vis (s_heap st1) (s_vis st1) (edst e)) then
                let st2 := discover st1 (edst e) (if post then None else Some e) in
                if is_target (s_heap st2) target (edst e) then (st2, Found (edst e))
                else
                  match descend f st2 (edst e) 0 with
                  | (st3, Exhausted) =>
                      descend f (if post then push_tree st3 e else st3) u (S pos)
                  | (st3, r) => (st3, r)
                  end
              else descend f st1 u (S pos)
          end
      end.
  End Descend.

  (* ---------------- queues ---------------- *)
  Definition fifo_push (q : list nat) (x : nat) : list nat := q ++ [x].
  Definition fifo_pop (q : list nat) : option (nat * list nat) :=
    match q with [] => None | x :: r => Some (x, r) end.

  (* std::collections::BinaryHeap over node ids, ordered by `le` (Node's / Reverse<Node>'s `<=`) *)
  Section StdHeap.
    Variable le : nat -> nat -> bool.

    Definition getn (l : list nat) (i : nat) : nat := nth i l 0.
    Fixpoint setn (l : list nat) (i x : nat) : list nat :=
      match l, i with
      | [], _ => []
      | _ :: r, 0 => x :: r
      | y :: r, S j => y :: setn r j x
      end.

    (* sift_up(start, pos) with the hole's element x *)
    Fixpoint sift_up (fuel : nat) (data : list nat) (start pos x : nat) : list nat :=
      match fuel with
      | 0 => setn data pos x
      | S f =>
          if Nat.ltb start pos then
            let parent := Nat.div2 (pos - 1) in
            if le x (getn data parent) then setn data pos x
            else sift_up f (setn data pos (getn data parent)) start parent x
          else setn data pos x
      end.

    (* sift_down_to_bottom: the hole travels down along the larger child to a leaf *)
    Fixpoint sift_down_hole (fuel : nat) (data : list nat) (hole : nat) : list nat * nat :=
      match fuel with
      | 0 => (data, hole)
      | S f =>
          let endn := length data in
          let child := 2 * hole + 1 in
          if Nat.leb child (endn - 2) (* child <= end.saturating_sub(2) *) then
            let c := if le (getn data child) (getn data (S child)) then S child else child in
            sift_down_hole f (setn data hole (getn data c)) c
          else if Nat.eqb child (endn - 1) then
            (setn data hole (getn data child), child)
          else (data, hole)
      end.

    Definition heap_push (data : list nat) (x : nat) : list nat :=
      sift_up (S (length data)) (data ++ [x]) 0 (length data) x.

    Definition heap_pop (data : list nat) : option (nat * list nat) :=
      match rev data with
      | [] => None
      | last :: rrest =>
          let rest := rev rrest in
          match rest with
          | [] => Some (last, [])
          | top :: _ =>
              (* swap(item, data[0]); sift_down_to_bottom(0) *)
              let data1 := setn rest 0 last in
              let (data2, pos) := sift_down_hole (S (length data1)) data1 0 in
              Some (top, sift_up (S (length data2)) data2 0 pos last)
          end
      end.
  End StdHeap.

  (* ---------------- path.rs ---------------- *)
  Definition same_key_id (h : heap) (a b : nat) : bool := same_key keqb h a b.

  (* reverse scan of backtrack_edge_tree over the edges before the last one *)
  Fixpoint bt_scan (h : heap) (cur : edge) (acc : list edge) (rest : list edge) : list edge :=
    match rest with
    | [] => acc
    | e :: r =>
        if same_key_id h (esrc cur) (edst e) then bt_scan h e (e :: acc) r
        else bt_scan h cur acc r
    end.

  (* None = the `unwrap()` on an empty tree *)
  Definition backtrack (h : heap) (tree : list edge) : option (list edge) :=
    match rev tree with
    | [] => None
    | w :: before => Some (bt_scan h w [w] before)
    end.

  (* Path::iter_nodes / to_vec_nodes *)
  Definition path_nodes (p : list edge) : list nat :=
    match p with [] => [] | e :: _ => esrc e :: map edst p end.

  (* ---------------- entry points ---------------- *)
  Inductive kind := KBfs | KDfs | KPfsMin | KPfsMax.

  Variable vleb : V -> V -> bool.   (* N's `<=` on node values *)

  Definition node_le (h : heap) (a b : nat) : bool :=
    match valof h a, valof h b with
    | Some x, Some y => vleb x y
    | _, _ => true
    end.
  (* Reverse<Node> for min mode *)
  Definition pq_le (h : heap) (maxmode : bool) (a b : nat) : bool :=
    if maxmode then node_le h a b else node_le h b a.

  (* Node: PartialEq by key; Ord / PartialOrd by value *)
  Definition node_eqb (h : heap) (a b : nat) : bool := same_key keqb h a b.
  Variable vcmp : V -> V -> comparison.
  Definition node_cmp (h : heap) (a b : nat) : option comparison :=
    match valof h a, valof h b with
    | Some x, Some y => Some (vcmp x y)
    | _, _ => None
    end.

  Definition init_st (h : heap) (c : CB) (root : nat) (root_visited : bool) : sst :=
    mkS h c (if root_visited then mark h [] root else []) [].

  (* cycle = true: search_cycle (root not pre-visited, target := root's key) *)
  Definition run_search (k : kind) (d : dir) (fuel : nat) (h : heap) (c : CB) (root : nat)
             (target : option K) (cycle : bool) : sst * status :=
    let tgt := if cycle then keyof h root else target in
    let st0 := init_st h c root (negb cycle) in
    match k with
    | KBfs => wl_loop fifo_push fifo_pop d tgt fuel st0 [root]
    | KDfs => descend d tgt false fuel st0 root 0
    | KPfsMin => wl_loop (heap_push (pq_le h false)) (heap_pop (pq_le h false)) d tgt fuel st0 [root]
    | KPfsMax => wl_loop (heap_push (pq_le h true)) (heap_pop (pq_le h true)) d tgt fuel st0 [root]
    end.

  Inductive sresult :=
  | RNone                      (* None *)
  | RNode (v : nat)            (* search(): Some(node) *)
  | RPath (p : list edge)      (* search_path()/search_cycle(): Some(path) *)
  | RPanic
  | RFuel.

  Definition search_find (k : kind) (d : dir) fuel h c root target : sst * sresult :=
    match run_search k d fuel h c root target false with
    | (st, Found v) => (st, RNode v)
    | (st, Exhausted) => (st, RNone)
    | (st, OutOfFuel) => (st, RFuel)
    end.

  Definition search_path (k : kind) (d : dir) fuel h c root target (cycle : bool) : sst * sresult :=
    match run_search k d fuel h c root target cycle with
    | (st, Found _) =>
        match backtrack (s_heap st) (s_tree st) with
        | Some p => (st, RPath p)
        | None => (st, RPanic)
        end
    | (st, Exhausted) => (st, RNone)
    | (st, OutOfFuel) => (st, RFuel)
    end.

  (* order.rs: no target; search_edges = the tree, search_nodes = root placed first/last *)
  Definition order_edges (d : dir) (post : bool) fuel h c root : sst * option (list edge) :=
    match descend d None post fuel (init_st h c root true) root 0 with
    | (st, OutOfFuel) => (st, None)
    | (st, _) => (st, Some (s_tree st))
    end.

  Definition order_nodes (d : dir) (post : bool) fuel h c root : sst * option (list nat) :=
    match order_edges d post fuel h c root with
    | (st, None) => (st, None)
    | (st, Some t) => (st, Some (if post then map edst t ++ [root] else root :: map edst t))
    end.

End Search.
