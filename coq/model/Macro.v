(* Macro.v — graph_macros.rs: the transcribers of digraph!/ungraph!/sync_digraph!/sync_ungraph!.
   All four signature forms expand to the same operation list (missing node / edge values are `()`):
     collect (source, target, value) for every listed edge, in listed order;
     insert Node::new(key, value) for every listed node (a repeated key is ignored by insert);
     for every collected edge: panic naming the first of (source, target) that is not in the graph,
     else connect.
   This is exactly the visitor of graph_serde.rs run on the listed nodes and edges.  Definitions only. *)
From Gdsl.Model Require Export Base NodeOps Container Serde.

Set Implicit Arguments.

Section Macro.
  Variables K V E : Type.
  Variable keqb : K -> K -> bool.

  (* one `(key, value) => [ (target, value), ... ]` item of an invocation *)
  Definition item := (K * V * list (K * E))%type.
  Definition item_node (it : item) : K * V := fst it.
  Definition item_edges (it : item) : list (K * K * E) :=
    map (fun te => (fst (fst it), fst te, snd te)) (snd it).

  Inductive macro_result := MOk (h : heap K V E) (g : graph K) | MPanic (missing : K).

  Definition macro_build (items : list item) : macro_result :=
    match rebuild keqb (map item_node items) (flat_map item_edges items) with
    | DeOk h g => MOk h g
    | DeMissing _ _ k => MPanic k
    end.
End Macro.
