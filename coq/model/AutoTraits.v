(* AutoTraits.v — a small model of rustc's auto-trait resolution for Send and Sync, enough for the
   type declarations of gdsl (C16).  Types are expressions over the parameters K, N, E, named
   structs of the crate and the std constructors that occur; (Send, Sync) of a type is the GREATEST
   fixpoint of the structural equations (auto traits are coinductive over recursive types), with the
   standard rules for Arc/Rc/Weak/RwLock/RefCell/Vec/HashMap/tuples, and "an explicit impl replaces
   the structural rule".  Definitions only. *)
From Coq Require Export List Bool String.
Export ListNotations.
Set Implicit Arguments.

Inductive param := PK | PN | PE.

Inductive ctor :=
| CArc | CArcWeak        (* std::sync::{Arc, Weak}:  Send = Sync = (T: Send + Sync) *)
| CRc | CRcWeak          (* std::rc::{Rc, Weak}:     never Send, never Sync *)
| CRwLock                (* Send = (T: Send); Sync = (T: Send + Sync) *)
| CRefCell               (* Send = (T: Send); never Sync *)
| CVec                   (* componentwise *)
| CHashMap               (* componentwise over key and value (the hasher state is Send + Sync) *)
| CLeaf.                 (* a type that is Send + Sync whatever the parameters (usize, String, ...) *)

Inductive ty :=
| TParam (p : param)
| TNamed (s : string)
| TApp (c : ctor) (args : list ty)
| TTuple (l : list ty).

(* where-clause of an explicit `unsafe impl Send/Sync for T<K,N,E> where ..`: for each of K, N, E
   whether it is required to be Send and/or Sync *)
Record bounds := mkBounds { b_send : param -> bool; b_sync : param -> bool }.

Record decl := mkDecl {
  d_name : string;
  d_fields : list ty;
  d_send_impl : option bounds;   (* explicit `unsafe impl Send` *)
  d_sync_impl : option bounds    (* explicit `unsafe impl Sync` *)
}.

(* (Send, Sync) of the three parameters *)
Definition env := param -> bool * bool.
Definition ss := (bool * bool)%type.

Definition band2 (a b : ss) : ss := (fst a && fst b, snd a && snd b).
Definition all2 (l : list ss) : ss := fold_right band2 (true, true) l.

Section Eval.
  Variable e : env.
  Variable named : string -> ss.   (* current approximation for the named structs *)

  Definition ctor_rule (c : ctor) (a : ss) : ss :=
    match c with
    | CArc | CArcWeak => (fst a && snd a, fst a && snd a)
    | CRc | CRcWeak => (false, false)
    | CRwLock => (fst a, fst a && snd a)
    | CRefCell => (fst a, false)
    | CVec | CHashMap => a
    | CLeaf => (true, true)
    end.

  Fixpoint eval (t : ty) : ss :=
    match t with
    | TParam p => e p
    | TNamed s => named s
    | TApp c args => ctor_rule c (all2 (map eval args))
    | TTuple l => all2 (map eval l)
    end.

  Definition holds (b : bounds) : bool :=
    forallb (fun p => (implb (b_send b p) (fst (e p))) && (implb (b_sync b p) (snd (e p)))) [PK; PN; PE].

  Definition eval_decl (d : decl) : ss :=
    let auto := all2 (map eval (d_fields d)) in
    (match d_send_impl d with Some b => holds b | None => fst auto end,
     match d_sync_impl d with Some b => holds b | None => snd auto end).
End Eval.

Fixpoint lookup (tbl : list (string * ss)) (s : string) : ss :=
  match tbl with
  | [] => (true, true)
  | (n, v) :: r => if String.eqb n s then v else lookup r s
  end.

Definition step_tbl (ds : list decl) (e : env) (tbl : list (string * ss)) : list (string * ss) :=
  map (fun d => (d_name d, eval_decl e (lookup tbl) d)) ds.

Fixpoint iter_tbl (n : nat) (ds : list decl) (e : env) (tbl : list (string * ss)) : list (string * ss) :=
  match n with 0 => tbl | S m => iter_tbl m ds e (step_tbl ds e tbl) end.

(* greatest fixpoint: start from "everything is Send + Sync"; each iteration can only clear bits, there
   are 2 * |ds| bits, so 2 * |ds| + 1 iterations reach the fixpoint *)
Definition solve_tbl (ds : list decl) (e : env) : list (string * ss) :=
  iter_tbl (2 * List.length ds + 1) ds e (map (fun d => (d_name d, (true, true))) ds).

Definition solve (ds : list decl) (e : env) (name : string) : ss := lookup (solve_tbl ds e) name.

(* the table is a fixpoint (checked by computation in the theorems) *)
Definition is_fixpoint (ds : list decl) (e : env) : bool :=
  let t := solve_tbl ds e in
  forallb (fun d => let a := lookup t (d_name d) in let b := eval_decl e (lookup t) d in
                    Bool.eqb (fst a) (fst b) && Bool.eqb (snd a) (snd b)) ds.

Definition mk_env (ks kc ns nc es ec : bool) : env :=
  fun p => match p with PK => (ks, kc) | PN => (ns, nc) | PE => (es, ec) end.
Definition all_ss (e : env) : bool :=
  fst (e PK) && snd (e PK) && fst (e PN) && snd (e PN) && fst (e PE) && snd (e PE).

Definition bools := [true; false].
Definition all_envs : list env :=
  flat_map (fun a => flat_map (fun b => flat_map (fun c => flat_map (fun d => flat_map (fun f => map (fun g =>
    mk_env a b c d f g) bools) bools) bools) bools) bools) bools.
