(* ConcClass.v — the interference classes of the known findings of C17 (D11) as a decidable predicate on
   scenarios, and the decision "this schedule's outcome is that of a serial schedule".  The check obtains the
   class of every scenario from THIS definition (through the extracted model); tools/conc_chan.py only names them.
   Definitions only. *)
From Gdsl.Model Require Export Base NodeOps Conc.

Set Implicit Arguments.

Section ConcClass.
  Variables K V E : Type.
  Variable keqb : K -> K -> bool.
  Variable eeqb : E -> E -> bool.
  Notation heap := (heap K V E).
  Notation call := (call K E).

  Inductive kclass :=
  | KIsolate          (* isolate concurrent with any access to the node or (potentially) a neighbour *)
  | KDisconnect       (* disconnect concurrent with another call sharing a node *)
  | KTryConnect       (* try_connect: check and connect are separate critical sections *)
  | KConSeveral       (* a connect whose endpoints are touched by two or more calls of another thread *)
  | KConSamePair      (* two connects of the same ordered pair: out-order and in-order may differ *)
  | KUndirSelfLoop    (* undirected: u.connect(u) concurrent with degree()/iter() of u *)
  | KUndirIterShift   (* undirected: iter() of u concurrent with a connect FROM u *)
  | KConCycle.        (* connects of several threads whose adjacency lists (out src / in dst) are shared in a cycle *)

  Definition ids_with_key (h : heap) (k : K) : list nat := filter (has_key keqb h k) (iota 0 (size h)).

  (* the nodes a call may touch (isolate: every node, since it writes to all neighbours) *)
  Definition call_nodes (h : heap) (c : call) : list nat :=
    match c with
    | CConnect _ u v _ | CTryConnect _ u v _ => [u; v]
    | CDisconnect _ u k | CIsConnected _ u k => u :: ids_with_key h k
    | CIsolate _ _ _ => iota 0 (size h)
    | CDegree _ _ u | CInDegree _ _ u | CIsOrphan _ _ u | CIter _ _ u | CIterIn _ _ u => [u]
    end.

  Definition shares (l1 l2 : list nat) : bool := existsb (fun a => existsb (Nat.eqb a) l2) l1.

  Definition class_of_pair (directed : bool) (h : heap) (a : call) (touching : list call) : option kclass :=
    match touching with
    | [] => None
    | b :: rest =>
        match a with
        | CIsolate _ _ _ => Some KIsolate
        | CDisconnect _ _ _ => Some KDisconnect
        | CTryConnect _ _ _ _ => Some KTryConnect
        | CConnect _ u v _ =>
            match rest with
            | _ :: _ => Some KConSeveral
            | [] =>
                match b with
                | CConnect _ u' v' _ => if Nat.eqb u u' && Nat.eqb v v' then Some KConSamePair else None
                | CDegree _ _ w => if negb directed && Nat.eqb u v && Nat.eqb w u then Some KUndirSelfLoop else None
                | CIter _ _ w =>
                    if negb directed && Nat.eqb u v && Nat.eqb w u then Some KUndirSelfLoop
                    else if negb directed && Nat.eqb w u then Some KUndirIterShift else None
                | _ => None
                end
            end
        | _ => None
        end
    end.

  Definition is_some_class (o : option kclass) : bool := match o with Some _ => true | None => false end.

  (* connects of the scenario as (thread, source, target).  Every connect appends to TWO lists in two critical sections:
     the source's outbound list, then the target's inbound list.  View the lists as vertices and the connects as edges
     (out src -- in dst) of a bipartite multigraph: if that multigraph has a cycle whose connects come from at least two
     threads, a schedule can order each shared list so that "was appended before" is cyclic, and no sequential order
     of the calls explains the final lists (c17_refuted_cycle).  Cycle detection: repeatedly delete connects that are
     the only remaining user of one of their two lists; what survives lies on cycles. *)
  Definition thread_connects (threads : list (list call)) : list (nat * nat * nat) :=
    flat_map (fun i => flat_map (fun c => match c with CConnect _ u v _ => [(i, u, v)] | _ => [] end) (nth i threads []))
             (iota 0 (length threads)).
  Definition cnt_src (l : list (nat * nat * nat)) (u : nat) : nat := length (filter (fun p => Nat.eqb (snd (fst p)) u) l).
  Definition cnt_dst (l : list (nat * nat * nat)) (v : nat) : nat := length (filter (fun p => Nat.eqb (snd p) v) l).
  Definition prune1 (l : list (nat * nat * nat)) : list (nat * nat * nat) :=
    filter (fun p => Nat.ltb 1 (cnt_src l (snd (fst p))) && Nat.ltb 1 (cnt_dst l (snd p))) l.
  Fixpoint prune (n : nat) (l : list (nat * nat * nat)) : list (nat * nat * nat) :=
    match n with 0 => l | S n' => prune n' (prune1 l) end.
  Definition has_connect_cycle (threads : list (list call)) : bool :=
    let l := thread_connects threads in
    match prune (length l) l with
    | [] => false
    | (i, _, _) :: r => existsb (fun p => negb (Nat.eqb (fst (fst p)) i)) r
    end.

  (* first class found, scanning threads and calls in order (mirrors the loop structure of the check) *)
  Definition known_class (directed : bool) (h : heap) (threads : list (list call)) : option kclass :=
    let idx := iota 0 (length threads) in
    let cands :=
      flat_map (fun i =>
        flat_map (fun a =>
          flat_map (fun j =>
            if Nat.eqb i j then []
            else
              let tj := nth j threads [] in
              let touching := filter (fun b => shares (call_nodes h a) (call_nodes h b)) tj in
              match class_of_pair directed h a touching with Some c => [c] | None => [] end)
            idx)
          (nth i threads []))
        idx in
    match cands with
    | c :: _ => Some c
    | [] => if has_connect_cycle threads then Some KConCycle else None
    end.

  (* ---------------- outcomes and serialisability of one finished run ---------------- *)
  Definition oeqb (a b : outcome E) : bool :=
    match a, b with
    | OkU, OkU | ErrNotFound, ErrNotFound | ErrExists, ErrExists | Panic, Panic | Invalid, Invalid => true
    | OkE x, OkE y => eeqb x y
    | _, _ => false
    end.

  Fixpoint leqb {A} (eq : A -> A -> bool) (l1 l2 : list A) : bool :=
    match l1, l2 with
    | [], [] => true
    | x :: r, y :: s => eq x y && leqb eq r s
    | _, _ => false
    end.

  Definition edge3_eqb (a b : nat * nat * E) : bool :=
    Nat.eqb (fst (fst a)) (fst (fst b)) && Nat.eqb (snd (fst a)) (snd (fst b)) && eeqb (snd a) (snd b).
  Definition cres_eqb (a b : cres E) : bool :=
    match a, b with
    | RO x, RO y => oeqb x y
    | RNat _ x, RNat _ y => Nat.eqb x y
    | RBool _ x, RBool _ y => Bool.eqb x y
    | REdges x, REdges y => leqb edge3_eqb x y
    | _, _ => false
    end.
  Definition adj_eqb (a b : list (nat * E)) : bool :=
    leqb (fun p q => Nat.eqb (fst p) (fst q) && eeqb (snd p) (snd q)) a b.

  Definition status_eqb (a b : tstatus) : bool :=
    match a, b with TRun, TRun | TDone, TDone | TPanic, TPanic | TFuel, TFuel => true | _, _ => false end.

  (* two finished configurations show the same outcome: per-thread status and results, poisoned locks, final graph *)
  Definition outcome_eqb (c1 c2 : config K V E) : bool :=
    leqb (fun t1 t2 => status_eqb (t_status t1) (t_status t2) && leqb cres_eqb (t_results t1) (t_results t2))
         (c_threads c1) (c_threads c2) &&
    leqb Nat.eqb (c_poisoned c1) (c_poisoned c2) &&
    forallb (fun u => adj_eqb (outs (c_heap c1) u) (outs (c_heap c2) u) && adj_eqb (ins (c_heap c1) u) (ins (c_heap c2) u))
            (iota 0 (size (c_heap c1))).

  (* a schedule is serial when a thread is only preempted between two of its calls *)
  Fixpoint serial_from (directed : bool) (c : config K V E) (prev : option nat) (midcall : bool) (sched : list nat) : bool :=
    match sched with
    | [] => true
    | tid :: r =>
        let switch_bad := match prev with Some p => negb (Nat.eqb p tid) && midcall | None => false end in
        if switch_bad then false
        else
          let before := match nth_error (c_threads c) tid with Some t => length (t_results t) | None => 0 end in
          let c1 := fst (cstep keqb directed c tid) in
          let mid := match nth_error (c_threads c1) tid with
                     | Some t => Nat.eqb (length (t_results t)) before && match t_status t with TRun => true | _ => false end
                     | None => false end in
          serial_from directed c1 (Some tid) mid r
    end.

  Definition final (directed : bool) (fuel : nat) (c0 : config K V E) (sched : list nat) : config K V E :=
    fst (run_sched keqb directed fuel c0 sched []).

  (* C17 on one schedule, relative to the serial schedules of the same scenario *)
  Definition good_schedule (directed : bool) (fuel : nat) (c0 : config K V E) (all_scheds : list (list nat)) (sched : list nat) : bool :=
    let c := final directed fuel c0 sched in
    no_panic c && all_done c &&
    existsb (fun s => serial_from directed c0 None false s && outcome_eqb (final directed fuel c0 s) c) all_scheds.

  (* every schedule of the scenario is good *)
  Definition scenario_good (directed : bool) (fuel : nat) (h : heap) (threads : list (list call)) : bool :=
    let c0 := init_config keqb directed h threads in
    let scheds := explore keqb directed fuel c0 [] in
    forallb (good_schedule directed fuel c0 scheds) scheds.
End ConcClass.
