(* Own.v — ownership structure of gdsl (C19): which objects hold nodes STRONGLY (Rc/Arc) and which
   weakly.  Read off the source: adjacency entries are `WeakNode` (adjacent.rs) — they contribute
   nothing; `Node` handles, `Edge(Node, Node, E)`, `Path { edges: Vec<Edge> }`, `Vec<Node>` results and
   `Graph { nodes: HashMap<K, Node> }` hold `Node`s, i.e. strong references.
   A node value is released when its strong count reaches 0.  The API layer (aop / astep) says which object owns
   what; the driver builds ledger steps only through it.  Definitions only. *)
From Gdsl.Model Require Export Base NodeOps Search.

Set Implicit Arguments.

Section Own.
  Variables K V E : Type.

  (* program-side objects: slot id -> the node ids it owns strongly (with multiplicity) *)
  Definition objs := list (nat * list nat).

  Record ostate := mkO {
    o_heap : heap K V E;
    o_objs : objs;
    o_released : list nat          (* nodes whose value has been released, oldest first *)
  }.

  Definition o_init : ostate := mkO empty_heap [] [].

  Fixpoint count_id (u : nat) (l : list nat) : nat :=
    match l with [] => 0 | x :: r => (if Nat.eqb x u then 1 else 0) + count_id u r end.

  (* strong count of node u: occurrences in live objects; adjacency lists do not count *)
  Definition strong (os : objs) (u : nat) : nat := count_id u (concat (map (@snd nat (list nat)) os)).

  Definition get_obj (os : objs) (s : nat) : option (list nat) :=
    option_map (@snd nat (list nat)) (find (fun p => Nat.eqb (fst p) s) os).
  Definition del_obj (os : objs) (s : nat) : objs := filter (fun p => negb (Nat.eqb (fst p) s)) os.

  (* storing an object in a slot drops whatever the slot held before *)
  Fixpoint dedup (l : list nat) : list nat :=
    match l with [] => [] | x :: r => if existsb (Nat.eqb x) r then dedup r else x :: dedup r end.

  Definition newly_released (os_after : objs) (already : list nat) (candidates : list nat) : list nat :=
    filter (fun u => Nat.eqb (strong os_after u) 0 && negb (existsb (Nat.eqb u) already)) (dedup candidates).

  (* drop the object in slot s (no-op when empty); returns the nodes released by this drop *)
  Definition drop_slot (st : ostate) (s : nat) : ostate * list nat :=
    match get_obj (o_objs st) s with
    | None => (st, [])
    | Some owned =>
        let os' := del_obj (o_objs st) s in
        let rel := newly_released os' (o_released st) owned in
        (mkO (o_heap st) os' (o_released st ++ rel), rel)
    end.

  (* put a NEW object owning `owned` into slot s.  As in Rust's `slot = new_value`, the new object exists
     (and holds its strong references) before the previous content of the slot is dropped *)
  Definition put_slot (st : ostate) (s : nat) (owned : list nat) : ostate * list nat :=
    let old := match get_obj (o_objs st) s with Some l => l | None => [] end in
    let os' := del_obj (o_objs st) s ++ [(s, owned)] in
    let rel := newly_released os' (o_released st) old in
    (mkO (o_heap st) os' (o_released st ++ rel), rel).

  Definition set_heap (st : ostate) (h : heap K V E) : ostate := mkO h (o_objs st) (o_released st).

  (* Node::new into slot s *)
  Definition o_new (st : ostate) (s : nat) (k : K) (v : V) : ostate * list nat :=
    let u := size (o_heap st) in
    put_slot (set_heap st (alloc (o_heap st) k v)) s [u].

  (* the node a slot holding a single node handle refers to *)
  Definition slot_node (st : ostate) (s : nat) : option nat :=
    match get_obj (o_objs st) s with Some [u] => Some u | _ => None end.

  (* what the objects returned by the API own *)
  Definition edge_owns (e : edge E) : list nat := [esrc e; edst e].
  Definition path_owns (p : list (edge E)) : list nat := flat_map edge_owns p.
  (* a container owns exactly the nodes it binds (Graph { nodes: HashMap<K, Node> }) *)
  Definition graph_owns (g : list (K * nat)) : list nat := map (@snd K nat) g.

  Definition is_released (st : ostate) (u : nat) : bool := existsb (Nat.eqb u) (o_released st).

  (* ownership histories: objects are created (holding strong references to live nodes) and dropped *)
  Inductive oop := OpPut (s : nat) (owned : list nat) | OpDrop (s : nat).
  Definition ostep (st : ostate) (o : oop) : ostate :=
    match o with
    | OpPut s owned => fst (put_slot st s owned)
    | OpDrop s => fst (drop_slot st s)
    end.
  (* a strong reference can only be obtained to a node that has not been released (Weak::upgrade fails otherwise) *)
  Definition legal (st : ostate) (o : oop) : Prop :=
    match o with
    | OpPut _ owned => Forall (fun u => is_released st u = false) owned
    | OpDrop _ => True
    end.
  Fixpoint orun (st : ostate) (ops : list oop) : ostate :=
    match ops with [] => st | o :: r => orun (ostep st o) r end.
  Fixpoint legal_run (st : ostate) (ops : list oop) : Prop :=
    match ops with [] => True | o :: r => legal st o /\ legal_run (ostep st o) r end.
  Fixpoint put_ids (ops : list oop) : list nat :=
    match ops with [] => [] | OpPut _ owned :: r => owned ++ put_ids r | OpDrop _ :: r => put_ids r end.

  (* API-level ownership events: what every library call that hands out, stores or drops an object does to the ledger.
     The extracted driver builds the ledger steps of a history ONLY through aop_oop. *)
  Inductive aop :=
  | ANode (s u : nat)                      (* a Node handle to u in slot s: Node::new, clone(), Graph::get / remove, search() *)
  | AEdge (s : nat) (e : edge E)           (* an Edge(u, v, e) in slot s: iterator item, find_*, Path index *)
  | APath (s : nat) (p : list (edge E))    (* a Path / Vec<Edge> in slot s *)
  | ANodes (s : nat) (l : list nat)        (* a Vec<Node> in slot s: search_nodes, scc component, to_vec *)
  | AGraph (s : nat) (g : list (K * nat))  (* the container in slot s now binds exactly g (new, insert, remove) *)
  | ADrop (s : nat).
  Definition aop_oop (a : aop) : oop :=
    match a with
    | ANode s u => OpPut s [u]
    | AEdge s e => OpPut s (edge_owns e)
    | APath s p => OpPut s (path_owns p)
    | ANodes s l => OpPut s l
    | AGraph s g => OpPut s (graph_owns g)
    | ADrop s => OpDrop s
    end.
  (* one API event: the new state and the nodes whose values it releases *)
  Definition astep (st : ostate) (a : aop) : ostate * list nat :=
    match aop_oop a with
    | OpPut s owned => put_slot st s owned
    | OpDrop s => drop_slot st s
    end.

  (* a node whose adjacency mentions a released node cannot be iterated / searched: upgrade() fails *)
  Definition dangling (st : ostate) (l : list (nat * E)) : bool :=
    existsb (fun p => is_released st (fst p)) l.
End Own.
