(* Scc.v — Graph::scc / scc_ordering of src/digraph/mod.rs and src/sync_digraph/mod.rs (Kosaraju):
   pass 1: for every member in container order, not yet visited: postorder() from it, filtered to
           unvisited targets; append to `ordering`, mark visited;
   pass 2: pop nodes off `ordering` (decreasing finishing time); for each one not yet assigned:
           preorder().transpose() from it, filtered to unassigned targets = its component.
   Definitions only. *)
From Gdsl.Model Require Export Base NodeOps Search Container.

Set Implicit Arguments.

Section Scc.
  Variables K V E : Type.
  Variable keqb : K -> K -> bool.
  Notation heap := (heap K V E).

  (* Filter(|Edge(_, v, _)| !set.contains(v.key())) : the callback has no state of its own *)
  Definition unseen_cb (seen : list K) (c : unit) (h : heap) (e : edge E) : unit * heap * bool :=
    (c, h, negb (in_vis keqb h seen (edst e))).

  Fixpoint mark_all (h : heap) (seen : list K) (l : list nat) : list K :=
    match l with [] => seen | u :: r => mark_all h (mark h seen u) r end.

  (* pass 1 *)
  Fixpoint scc_ordering_go (fuel : nat) (h : heap) (members : list nat) (visited : list K) (ordering : list nat)
    : option (list nat) :=
    match members with
    | [] => Some ordering
    | next :: r =>
        if in_vis keqb h visited next then scc_ordering_go fuel h r visited ordering
        else
          match order_nodes keqb (unseen_cb visited) DOut true fuel h tt next with
          | (_, Some part) => scc_ordering_go fuel h r (mark_all h visited part) (ordering ++ part)
          | (_, None) => None
          end
    end.

  Definition scc_ordering (fuel : nat) (h : heap) (members : list nat) : option (list nat) :=
    scc_ordering_go fuel h members [] [].

  (* pass 2 over the ordering, last element first *)
  Fixpoint scc_collect (fuel : nat) (h : heap) (stack : list nat) (assigned : list K) (comps : list (list nat))
    : option (list (list nat)) :=
    match stack with
    | [] => Some comps
    | node :: r =>
        if in_vis keqb h assigned node then scc_collect fuel h r assigned comps
        else
          match order_nodes keqb (unseen_cb assigned) DIn false fuel h tt node with
          | (_, Some comp) => scc_collect fuel h r (mark_all h assigned comp) (comps ++ [comp])
          | (_, None) => None
          end
    end.

  (* None = out of fuel *)
  Definition scc (fuel : nat) (h : heap) (g : graph K) (order : list K) : option (list (list nat)) :=
    match scc_ordering fuel h (g_iter keqb g order) with
    | Some ordering => scc_collect fuel h (rev ordering) [] []
    | None => None
    end.
End Scc.
